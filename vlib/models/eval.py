"""Independent reference evaluator for truth's expression language (C11, C18).

Written from the property statement / DESIGN.md B.4: 32-bit wrapping integers, truncating division and casts,
shift counts mod 32, `>>` arithmetic and `>>>` logical, IEEE binary32 floats per operation, C-style ! && ||.
Shares no code with truth."""
import math, struct

class Undefined(Exception):
    """The expression has no defined value (e.g. integer division by zero): an error diagnostic is expected."""

class Unjudged(Exception):
    """Outside what the property specifies (e.g. float->int cast out of range)."""

def wrap(v):
    v &= 0xffffffff
    return v - (1 << 32) if v & 0x80000000 else v

def f32(x):
    """Round a python float (double) to binary32."""
    try:
        return struct.unpack('<f', struct.pack('<f', x))[0]
    except OverflowError:
        return math.copysign(math.inf, x)

def bits_of(x): return struct.unpack('<I', struct.pack('<f', x))[0]
def from_bits(b): return struct.unpack('<f', struct.pack('<I', b & 0xffffffff))[0]

INT, FLOAT = 'int', 'float'

def binop(op, a, b, ty):
    """a, b python ints (ty == INT) or floats already rounded to f32 (ty == FLOAT).  Returns (value, type)."""
    if ty == INT:
        if op == '+': return wrap(a + b), INT
        if op == '-': return wrap(a - b), INT
        if op == '*': return wrap(a * b), INT
        if op in ('/', '%'):
            if b == 0: raise Undefined('integer division by zero')
            q = abs(a) // abs(b)
            if (a < 0) != (b < 0): q = -q
            if op == '/': return wrap(q), INT
            return wrap(a - q * b), INT
        if op == '&': return wrap(a & b), INT
        if op == '|': return wrap(a | b), INT
        if op == '^': return wrap(a ^ b), INT
        if op == '<<': return wrap(a << (b & 31)), INT
        if op == '>>': return wrap(a >> (b & 31)), INT
        if op == '>>>': return wrap((a & 0xffffffff) >> (b & 31)), INT
        if op == '&&': return int(a != 0 and b != 0), INT
        if op == '||': return int(a != 0 or b != 0), INT
    else:
        if op == '+': return f32(a + b), FLOAT
        if op == '-': return f32(a - b), FLOAT
        if op == '*': return f32(a * b), FLOAT
        if op == '/':
            if b == 0.0:
                if a == 0.0 or a != a: return math.nan, FLOAT
                neg = (math.copysign(1.0, a) < 0) != (math.copysign(1.0, b) < 0)
                return (-math.inf if neg else math.inf), FLOAT
            return f32(a / b), FLOAT
        if op == '%':
            if a != a or b != b or math.isinf(a) or b == 0.0: return math.nan, FLOAT
            if math.isinf(b): return a, FLOAT
            return f32(math.fmod(a, b)), FLOAT
    if op == '==': return int(a == b), INT
    if op == '!=': return int(a != b), INT
    if op == '<': return int(a < b), INT
    if op == '<=': return int(a <= b), INT
    if op == '>': return int(a > b), INT
    if op == '>=': return int(a >= b), INT
    raise ValueError('bad op %s for %s' % (op, ty))

def cast_int(x):
    if x != x or math.isinf(x) or not (-2147483648.0 <= math.trunc(x) <= 2147483647.0): raise Unjudged('float->int cast out of range')
    return int(math.trunc(x))

def unop(op, a, ty):
    if op == '-': return (wrap(-a), INT) if ty == INT else (-a, FLOAT)
    if op == '!': return int(a == 0), INT
    if op == '~': return wrap(~a), INT
    if op in ('int', '_S', '$'):
        return (a, INT) if ty == INT else (cast_int(a), INT)
    if op in ('float', '_f', '%'):
        return (a, FLOAT) if ty == FLOAT else (f32(float(a)), FLOAT)
    if op in ('sin', 'cos', 'tan', 'asin', 'acos', 'atan', 'sqrt'):
        try:
            v = getattr(math, op)(a)
        except ValueError:
            v = math.nan
        except OverflowError:
            v = math.inf
        return f32(v), FLOAT
    raise ValueError('bad unop ' + op)

TRANSCENDENTAL = {'sin', 'cos', 'tan', 'asin', 'acos', 'atan'}

def evaluate(e, env):
    """e: tuple tree.  env: {'regs': {id: (value, ty)}, 'consts': {name: tree}, 'stack': [...]}.  Returns (value, ty, exactness) where exactness
    is 'exact' or 'approx' (went through a transcendental function: compared with a tolerance)."""
    k = e[0]
    if k == 'i': return wrap(e[1]), INT, 'exact'
    if k == 'f': return from_bits(e[1]), FLOAT, 'exact'
    if k == 'reg':
        v, ty = env['regs'][e[1]]
        want = e[2]   # read type (after optional sigil)
        if want == ty: return v, ty, 'exact'
        v2, t2 = unop('int' if want == INT else 'float', v, ty)
        return v2, t2, 'exact'
    if k == 'const':
        name = e[1]
        if name in env.get('stack', ()): raise Undefined('cyclic const')
        env.setdefault('stack', []).append(name)
        try:
            v, ty, ex = evaluate(env['consts'][name][1], env)
        finally:
            env['stack'].pop()
        want = e[2]
        if want and want != ty:
            v, ty = unop('int' if want == INT else 'float', v, ty)
        return v, ty, ex
    if k == 'un':
        v, ty, ex = evaluate(e[2], env)
        r, t = unop(e[1], v, ty)
        if e[1] in TRANSCENDENTAL and env.get('nudge') and t == FLOAT and r == r and not math.isinf(r):
            # sensitivity probe: move the result of the library function by ~2 ulp
            r = f32(r * (1.0 + env['nudge'] * 2.5e-7))
        return r, t, ('approx' if e[1] in TRANSCENDENTAL or ex == 'approx' else 'exact')
    if k == 'bin':
        a, ta, ea = evaluate(e[2], env)
        b, tb, eb = evaluate(e[3], env)
        r, t = binop(e[1], a, b, ta)
        return r, t, ('approx' if 'approx' in (ea, eb) else 'exact')
    if k == 'tern':
        c, _, ec = evaluate(e[1], env)
        # both branches must be defined for the whole to be (truth evaluates consts eagerly); value comes from the chosen one
        a = evaluate(e[2], env); b = evaluate(e[3], env)
        v, t, ex = a if c != 0 else b
        return v, t, ('approx' if 'approx' in (ec, ex) else 'exact')
    raise ValueError('bad node %r' % (e,))

NONFINITE_AS_EXPR = False   # AstVm has no builtin consts: spell non-finite literals as expressions when rendering for the VM

def render(e):
    k = e[0]
    if k == 'f' and NONFINITE_AS_EXPR:
        x = from_bits(e[1])
        if x != x: return '(0.0 / 0.0)'
        if math.isinf(x): return '(340282350000000000000000000000000000000.0 * 10.0)' if x > 0 else '(340282350000000000000000000000000000000.0 * (-10.0))'
    if k == 'i':
        v = e[1]
        return str(v) if v >= 0 else '(-%d)' % (-v) if v != -2147483648 else '(-2147483647 - 1)'
    if k == 'f':
        x = from_bits(e[1])
        if x != x: return 'NAN'
        if math.isinf(x): return 'INF' if x > 0 else '(-INF)'
        s = repr(x)
        # shortest repr of the f32 value: go through repr of the single
        import numbers
        s = fmt_f32(x)
        return s if x >= 0 and not (x == 0 and math.copysign(1, x) < 0) else '(%s)' % s
    if k == 'reg':
        sig = ''
        if e[3]: sig = e[3]
        return '%sREG[%d]' % (sig, e[1])
    if k == 'const':
        return ('$' if e[2] == INT and e[3] else '%' if e[2] == FLOAT and e[3] else '') + e[1]
    if k == 'un':
        op = e[1]
        if op in ('-', '!', '~'): return '%s(%s)' % (op, render(e[2]))
        return '%s(%s)' % (op, render(e[2]))
    if k == 'bin': return '(%s %s %s)' % (render(e[2]), e[1], render(e[3]))
    if k == 'tern': return '(%s ? %s : %s)' % (render(e[1]), render(e[2]), render(e[3]))
    raise ValueError(e)

def fmt_f32(x):
    """Shortest decimal string that round-trips through binary32."""
    if x == 0: return '-0.0' if math.copysign(1, x) < 0 else '0.0'
    for prec in range(1, 18):
        s = '%.*g' % (prec, x)
        if f32(float(s)) == x:
            if 'e' in s or 'E' in s:
                # truth's lexer has no exponent syntax: expand
                from decimal import Decimal
                s = format(Decimal(s), 'f')
            if '.' not in s: s += '.0'
            return s
    return repr(x)
