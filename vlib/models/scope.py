"""Scope-tree generator and independent lexical-scoping model (C10, DESIGN.md B.2)."""

VARPOOL = ['a', 'b', 'c', 'd']
FUNCPOOL = ['f', 'g']
ALIASES = ['ALIAS', 'XLIAS']           # register aliases of the current language (mapfile below)
OTHER_LANG_ALIASES = ['OTHERLANG']     # register alias that only exists for another language
INS_ALIASES = ['alias_ins']
OTHER_INS_ALIASES = ['other_ins']

MAPFILES = ['!anmmap\n!gvar_names\n100 ALIAS\n101 XLIAS\n!gvar_types\n100 $\n101 $\n!ins_names\n21 alias_ins\n!ins_signatures\n21 S\n',
            '!eclmap\n!gvar_names\n100 OTHERLANG\n!gvar_types\n100 $\n!ins_names\n22 other_ins\n!ins_signatures\n22 S\n']


class Use:
    def __init__(self, name, ns='var'): self.name, self.ns = name, ns; self.expect = None

class Decl:
    n = 0
    def __init__(self, name, kind):
        Decl.n += 1
        self.name, self.kind, self.uid = name, kind, '%s#%d' % (kind, Decl.n)

class Node:
    def __init__(self, kind, **kw): self.kind = kind; self.__dict__.update(kw)


class ScopeGen:
    def __init__(self, rng, want_error=None, pool=None, funcs=True):
        self.r = rng
        self.pool = pool or VARPOOL
        self.want_error = want_error
        self.funcs = funcs
        self.occ = []           # ResIdent occurrences in textual order: ('decl', Decl) | ('use', Use)
        self.errors = []
        self.budget = 24
        # every function name has one arity throughout a program (arity errors are the type checker's business; the resolver
        # does not look at surplus arguments)
        self.arity = {fn: rng.randint(0, 2) for fn in FUNCPOOL}

    # ----------------------------------------------------------------- tree generation
    def expr(self):
        r = self.r
        parts = []
        for _ in range(r.randint(1, 3)):
            k = r.wpick([('use', 6), ('lit', 3), ('alias', 0.7), ('otheralias', 0.25 if self.want_error else 0)])
            if k == 'use': parts.append(Use(r.pick(self.pool)))
            elif k == 'alias': parts.append(Use(r.pick(ALIASES)))
            elif k == 'otheralias': parts.append(Use(r.pick(OTHER_LANG_ALIASES)))
            else: parts.append(str(r.randint(0, 9)))
        return parts

    def block(self, depth, in_func=False):
        r = self.r
        stmts = []
        for _ in range(r.randint(1, 4 if depth < 2 else 2)):
            if self.budget <= 0: break
            self.budget -= 1
            opts = [('assign', 4), ('decl', 3), ('const', 1.5), ('call', 1 if self.funcs else 0)]
            if depth < 3: opts += [('if', 1.2), ('loop', 0.8 if self.funcs else 0), ('block', 0.8), ('func', 0.9 if self.funcs else 0), ('times', 0.6)]
            k = r.wpick(opts)
            if k == 'assign': stmts.append(Node('assign', target=Use(r.pick(self.pool + ALIASES)), expr=self.expr()))
            elif k == 'decl':
                items = []
                for _ in range(r.wpick([(1, 4), (2, 1)])):
                    items.append((Decl(r.pick(self.pool), 'local'), self.expr() if r.chance(0.7) else None))
                stmts.append(Node('decl', items=items))
            elif k == 'const':
                stmts.append(Node('const', items=[(Decl(r.pick(self.pool), 'const'), self.expr())]))
            elif k == 'call':
                if r.chance(0.5):
                    fn = r.pick(FUNCPOOL)
                    stmts.append(Node('call', func=Use(fn, 'func'), args=[self.expr() for _ in range(self.arity[fn])]))
                else: stmts.append(Node('call', func=Use(r.pick(INS_ALIASES + (OTHER_INS_ALIASES if self.want_error and r.chance(0.3) else [])), 'func'), args=[self.expr()]))
            elif k == 'if':
                stmts.append(Node('if', cond=self.expr(), then=self.block(depth + 1), other=self.block(depth + 1) if r.chance(0.4) else None))
            elif k == 'loop': stmts.append(Node('loop', body=self.block(depth + 1)))
            elif k == 'times': stmts.append(Node('times', count=self.expr(), body=self.block(depth + 1)))
            elif k == 'block': stmts.append(Node('block', body=self.block(depth + 1)))
            elif k == 'func':
                fn = r.pick(FUNCPOOL)
                params = [Decl(n, 'param') for n in r.sample(self.pool, self.arity[fn])]
                if self.want_error and r.chance(0.2) and len(params) >= 2: params[1] = Decl(params[0].name, 'param')
                stmts.append(Node('func', decl=Decl(fn, 'func'), params=params, body=self.block(depth + 1, in_func=True)))
        return Node('blk', stmts=stmts)

    # ----------------------------------------------------------------- the model
    def resolve_all(self, root):
        self.resolve_block(root, [])

    def lookup_var(self, use, chain):
        """chain: innermost last.  Entries: ('locals', {name: Decl}), ('params', {..}), ('items', {..}), ('barrier', kind)."""
        crossed = None
        for kind, table in reversed(chain):
            if kind == 'barrier':
                crossed = crossed or table; continue
            if kind in ('locals', 'params'):
                if use.name in table:
                    if crossed: return ('error', 'local-across-%s' % crossed)
                    return ('def', table[use.name].uid)
            elif kind == 'items':
                if use.name in table: return ('def', table[use.name].uid)
        # register aliases belong to a language; a const initialiser has none ("... which is not a const expression")
        if use.name in ALIASES and crossed != 'const' and not self._crossed_const(chain): return ('alias', use.name)
        if use.name in ('NAN', 'INF', 'PI', 'true', 'false'): return ('builtin', use.name)
        return ('error', 'unknown-var')

    @staticmethod
    def _crossed_const(chain):
        return any(k == 'barrier' and t == 'const' for k, t in chain)

    def lookup_func(self, use, fchain):
        for table in reversed(fchain):
            if use.name in table: return ('def', table[use.name].uid)
        if use.name in INS_ALIASES: return ('alias', use.name)
        return ('error', 'unknown-func')

    def do_use(self, use, chain, fchain):
        use.expect = self.lookup_var(use, chain) if use.ns == 'var' else self.lookup_func(use, fchain)
        if use.expect[0] == 'error': self.errors.append(use.expect[1])
        self.occ.append(('use', use))

    def do_expr(self, parts, chain, fchain):
        for p in parts:
            if isinstance(p, Use): self.do_use(p, chain, fchain)

    def resolve_block(self, blk, chain, fchain=None, extra=None):
        fchain = list(fchain or [])
        # items (consts, funcs) of this block are visible throughout it
        consts, funcs = {}, {}
        for s in blk.stmts:
            if s.kind == 'const':
                for d, _ in s.items:
                    if d.name in consts: self.errors.append('redefinition-const')
                    consts[d.name] = d
            if s.kind == 'func':
                if s.decl.name in funcs: self.errors.append('redefinition-func')
                funcs[s.decl.name] = s.decl
        chain = chain + [('items', consts)]
        fchain = fchain + [funcs]
        locals_ = {}
        chain = chain + [('locals', locals_)]
        for s in blk.stmts:
            if s.kind == 'assign':
                self.do_use(s.target, chain, fchain); self.do_expr(s.expr, chain, fchain)
            elif s.kind == 'decl':
                for d, init in s.items:
                    # the initialiser sees the outer meaning of the name (it is resolved before the new local exists),
                    # but textually the declared name comes first
                    mark = len(self.occ)
                    if init is not None: self.do_expr(init, chain, fchain)
                    if d.name in locals_: self.errors.append('redefinition-local')
                    locals_[d.name] = d
                    self.occ.insert(mark, ('decl', d))
            elif s.kind == 'const':
                for d, e in s.items:
                    self.occ.append(('decl', d))
                    self.do_expr(e, chain + [('barrier', 'const')], fchain)
            elif s.kind == 'call':
                self.do_use(s.func, chain, fchain)
                for a in s.args: self.do_expr(a, chain, fchain)
            elif s.kind == 'if':
                self.do_expr(s.cond, chain, fchain); self.resolve_block(s.then, chain, fchain)
                if s.other: self.resolve_block(s.other, chain, fchain)
            elif s.kind == 'loop': self.resolve_block(s.body, chain, fchain)
            elif s.kind == 'times':
                self.do_expr(s.count, chain, fchain); self.resolve_block(s.body, chain, fchain)
            elif s.kind == 'block': self.resolve_block(s.body, chain, fchain)
            elif s.kind == 'func':
                self.occ.append(('decl', s.decl))
                params = {}
                for p in s.params:
                    if p.name in params: self.errors.append('redefinition-param')
                    params[p.name] = p
                    self.occ.append(('decl', p))
                self.resolve_block(s.body, chain + [('barrier', 'function'), ('params', params)], fchain)

    # ----------------------------------------------------------------- rendering
    def render_expr(self, parts): return ' + '.join(p.name if isinstance(p, Use) else p for p in parts)

    def render(self, blk, ind=0):
        pad = '    ' * ind
        out = [pad + '{']
        for s in blk.stmts:
            p = pad + '    '
            if s.kind == 'assign': out.append('%s%s = %s;' % (p, s.target.name, self.render_expr(s.expr)))
            elif s.kind == 'decl': out.append('%sint %s;' % (p, ', '.join(d.name + (' = ' + self.render_expr(i) if i is not None else '') for d, i in s.items)))
            elif s.kind == 'const': out.append('%sconst int %s;' % (p, ', '.join('%s = %s' % (d.name, self.render_expr(e)) for d, e in s.items)))
            elif s.kind == 'call': out.append('%s%s(%s);' % (p, s.func.name, ', '.join(self.render_expr(a) for a in s.args)))
            elif s.kind == 'if':
                out.append('%sif (%s)' % (p, self.render_expr(s.cond))); out.append(self.render(s.then, ind + 1))
                if s.other: out.append(p + 'else'); out.append(self.render(s.other, ind + 1))
            elif s.kind == 'loop': out.append(p + 'loop'); out.append(self.render(s.body, ind + 1))
            elif s.kind == 'times': out.append('%stimes(%s)' % (p, self.render_expr(s.count))); out.append(self.render(s.body, ind + 1))
            elif s.kind == 'block': out.append(self.render(s.body, ind + 1))
            elif s.kind == 'func':
                out.append('%svoid %s(%s)' % (p, s.decl.name, ', '.join('int ' + q.name for q in s.params))); out.append(self.render(s.body, ind + 1))
        out.append(pad + '}')
        return '\n'.join(out)


def generate(rng, want_error=False, funcs=True):
    g = ScopeGen(rng, want_error=want_error, funcs=funcs)
    root = g.block(0)
    if not funcs:
        pre = [Node('decl', items=[(Decl(n, 'local'), ['0']) for n in g.pool])]
        root = Node('blk', stmts=pre + [Node('block', body=root)])
    elif rng.chance(0.75):
        # declare every pool name up front so that most uses have something to bind to (shadowing, not "unknown", is the interesting part)
        pre = [Node('decl', items=[(Decl(n, 'local'), None) for n in g.pool])]
        pre += [Node('func', decl=Decl(fn, 'func'), params=[Decl(n, 'param') for n in g.pool[:g.arity[fn]]], body=Node('blk', stmts=[])) for fn in FUNCPOOL]
        root = Node('blk', stmts=pre + [Node('block', body=root)])
    g.resolve_all(root)
    return g, root, g.render(root)


def rename(g, root, rng):
    """Consistently rename every declared name to a fresh name (uses follow their resolved declaration)."""
    fresh = {}
    def newname(d):
        if d.uid not in fresh: fresh[d.uid] = '%s_r%d' % (d.name, len(fresh))
        return fresh[d.uid]
    for kind, x in g.occ:
        if kind == 'decl': x.name2 = newname(x)
    for kind, x in g.occ:
        if kind == 'use' and x.expect and x.expect[0] == 'def':
            x.name2 = fresh[x.expect[1]]
    # render with name2 where present
    class V(ScopeGen): pass
    def nm(o): return getattr(o, 'name2', o.name)
    old_expr = g.render_expr
    def render_expr(parts): return ' + '.join(nm(p) if isinstance(p, Use) else p for p in parts)
    # temporary monkeypatch of names for rendering
    saved = []
    for kind, x in g.occ:
        saved.append((x, x.name)); x.name = nm(x)
    try:
        return g.render(root)
    finally:
        for x, n in saved: x.name = n
