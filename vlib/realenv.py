"""Real language environments (ANM v2+, old ECL) for in-process lowering workloads.

The general-purpose register sets are written down here independently of truth (from the game
documentation reproduced in truth's README/comments): they are what C05 compares the allocator
against, so a change to truth's own lists is observed as a violation."""
from .gensrc import Env

ANM_GP_INT = [10000, 10001, 10002, 10003, 10008, 10009]
ANM_GP_FLOAT = [10004, 10005, 10006, 10007]
ECL_GP = {
    'th06': ([-10001, -10002, -10003, -10004, -10009, -10010, -10011, -10012], [-10005, -10006, -10007, -10008]),
    'th07': ([10000, 10001, 10002, 10003, 10012, 10013, 10014, 10015], [10004, 10005, 10006, 10007, 10008, 10009, 10010, 10011, 10072, 10074]),
    'th08': ([10000, 10001, 10002, 10003, 10004, 10005, 10006, 10007, 10036, 10037, 10038, 10039], [10016, 10017, 10018, 10019, 10020, 10021, 10022, 10023, 10094, 10095]),
    'th09': ([10000, 10001, 10002, 10003, 10004, 10005, 10006, 10007, 10036, 10037, 10038, 10039], [10016, 10017, 10018, 10019, 10020, 10021, 10022, 10023, 10094, 10095]),
    'th095': ([10000, 10001, 10002, 10003, 10004, 10005, 10006, 10007, 10020, 10021, 10022, 10023], [10008, 10009, 10010, 10011, 10012, 10013, 10014, 10015, 10077, 10078, 10079, 10080]),
}
ECL_ANTI = {'th06': 130, 'th07': 130, 'th08': 151, 'th09': 151, 'th095': 126}
ANM_GAMES = ['th07', 'th08', 'th09', 'th095', 'th10', 'th11', 'th12', 'th125', 'th128', 'th13', 'th14', 'th15', 'th16', 'th17', 'th18']

USER_OPS = [(2000, ''), (2001, 'S'), (2002, 'f'), (2003, 'SS'), (2004, 'Sf'), (2005, 'fS'), (2006, 'ff'), (2007, 'SfS'), (2008, 'fff')]

class LangEnv:
    pass

def pick_lang(rng, which):
    le = LangEnv()
    if which == 'anm':
        g = rng.pick(ANM_GAMES)
        le.lang = {'kind': 'anm', 'game': g}
        le.tag = 'anm:' + g
        le.gp_int, le.gp_float = list(ANM_GP_INT), list(ANM_GP_FLOAT)
        le.anti_scratch = 509 if ANM_GAMES.index(g) >= ANM_GAMES.index('th14') else None
        le.mapkind = '!anmmap'
        le.has_diff = False
        le.count_gt = g in ('th07', 'th08', 'th09')
    else:
        g = rng.pick(sorted(ECL_GP))
        le.lang = {'kind': 'ecl', 'game': g}
        le.tag = 'ecl:' + g
        le.gp_int, le.gp_float = [list(x) for x in ECL_GP[g]]
        le.anti_scratch = None   # the ECL one is file-global ("water elf") and is exercised through the CLI workload
        le.mapkind = '!eclmap'
        le.has_diff = True
        le.count_gt = False
    le.game = g
    lines = [le.mapkind, '!ins_signatures'] + ['%d %s' % (op, sig) for op, sig in USER_OPS]
    le.mapfile = '\n'.join(lines) + '\n'
    le.sentinel = 'ins_2000();'
    return le

def feats_for(le, rng):
    f = {'arith', 'div', 'neg', 'ternary', 'locals', 'assign_ops', 'calls', 'if', 'while', 'dowhile', 'times', 'times_clobber',
         'loop', 'break', 'block', 'goto', 'condjump', 'countjump', 'timelabels', 'logic_cond', 'rawregs', 'math'}
    if le.game != 'th06' or le.lang['kind'] == 'anm':
        f |= {'sigils', 'casts'}
    if le.has_diff: f |= {'diffswitch'}
    for x in list(f):
        if rng.chance(0.12): f.discard(x)
    return f

def make_env(le, feats, rng):
    def subset(regs, ks):
        k = rng.pick(ks)
        return sorted(rng.sample(list(regs), min(k, len(regs))))
    name = lambda r: 'REG[%d]' % r
    iv = [(name(r), r) for r in subset(le.gp_int, [0, 1, 2, 3, 4, 6])]
    fv = [(name(r), r) for r in subset(le.gp_float, [0, 1, 2, 3, 4])]
    calls = [('ins_%d' % op, op, list(sig)) for op, sig in USER_OPS]
    env = Env(iv, fv, calls, feats)
    if le.count_gt: env.count_form = '--%s > 0'
    env.math_fns = ['sin', 'cos']
    return env
