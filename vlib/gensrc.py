"""G-src: grammar-directed generator of truth script bodies with a typed symbol table.

The generator returns the text *and* a ground-truth record (registers mentioned, features
used, ...) which oracles compare against; nothing here calls into truth."""

INT, FLOAT = 'int', 'float'

ALL_FEATS = {
    'arith', 'div', 'cmp_value', 'logic_value', 'bitwise', 'neg', 'not', 'ternary', 'diffswitch', 'casts', 'math',
    'locals', 'assign_ops', 'calls', 'if', 'while', 'dowhile', 'times', 'times_clobber', 'loop', 'break', 'block',
    'goto', 'condjump', 'countjump', 'timelabels', 'sigils', 'logic_cond', 'neg_time', 'difflabels', 'rawregs', 'const_conds', 'diffruns',
}


class Env:
    def __init__(self, int_vars, float_vars, calls, feats, reg_text=None, extra_int=(), extra_float=()):
        self.int_vars = list(int_vars)        # [(text, regid)]
        self.float_vars = list(float_vars)
        self.extra_int = list(extra_int)      # never-scratch registers (also usable)
        self.extra_float = list(extra_float)
        self.calls = list(calls)              # [(name, opcode, [ 'S' | 'f' ... ])]
        self.feats = set(feats)
        self.reg_text = reg_text or (lambda r: 'REG[%d]' % r)
        self.count_form = '--%s'              # or '--%s > 0' for languages whose counting jump is the `>` flavour


class Body:
    def __init__(self):
        self.text = ''
        self.mentioned = set()     # register ids written anywhere in the text
        self.mention_ctx = {}      # register id -> set of syntactic contexts it was mentioned in
        self.count_regs = set()    # registers that must start small & non-negative (loop counts)
        self.used = set()          # features actually used
        self.nstmts = 0
        self.max_depth = 0
        self.nlocals = 0
        self.max_live_locals = {INT: 0, FLOAT: 0}
        self.shape = []            # coarse structural fingerprint


class BodyGen:
    def __init__(self, rng, env, max_depth=3, max_stmts=10, expr_depth=3):
        self.rng, self.env = rng, env
        self.max_depth, self.max_stmts, self.expr_depth = max_depth, max_stmts, expr_depth
        self.body = Body()
        self.scopes = [{}]         # name -> (ty, kind)
        self.live = {INT: 0, FLOAT: 0}
        self.nlabel = 0
        self.nlocal = 0
        self.loop_depth = 0
        self.reserved = set()      # regs reserved as loop counters (not assignable by random statements)
        self.budget = max_stmts * 3
        self.cstack = ['stmt']
        self.opportunities = 0     # typed expression slots seen (for single-point type mutations)
        self.inject_at = None      # if set: the k-th slot gets an expression of the wrong type
        self.injected = None       # description of the injected fault
        self.no_inject = 0
        self.tmax = 0              # upper bound of the script time at the current point (labels are kept monotone)
        # the register used for register-valued loop counts is never written by the body (it must stay small and >= 0)
        if env.extra_int and ('times' in env.feats):
            self.reserved.add(env.extra_int[0][1])
        self.nreads = 0
        self.F = env.feats

    # ------------------------------------------------------------------ helpers
    def has(self, f): return f in self.F
    def use(self, f): self.body.used.add(f)

    def fresh_local(self):
        self.nlocal += 1
        return 'v%d' % self.nlocal

    def fresh_label(self):
        self.nlabel += 1
        return 'L%d' % self.nlabel

    def vars_of(self, ty, writable=False):
        out = []
        regs = (self.env.int_vars + self.env.extra_int) if ty == INT else (self.env.float_vars + self.env.extra_float)
        for text, reg in regs:
            if writable and reg in self.reserved: continue
            out.append((text, reg))
        for sc in self.scopes:
            for name, (t, kind) in sc.items():
                if t == ty and not (writable and kind == 'counter'):
                    out.append((name, None))
        return out

    def mention(self, reg, ctx=None):
        if reg is not None:
            self.body.mentioned.add(reg)
            # anything inside a constant-condition ternary may be dead code, whatever is nested in between
            c = 'ternary-const-cond' if 'ternary-const-cond' in self.cstack else (ctx or self.cstack[-1])
            self.body.mention_ctx.setdefault(reg, set()).add(c)

    def within(self, name):
        gen = self
        class _C:
            def __enter__(s): gen.cstack.append(name)
            def __exit__(s, *a): gen.cstack.pop()
        return _C()

    def var_text(self, text, reg):
        """Spell a register: alias or REG[n] (rawregs feature)."""
        if reg is not None and self.has('rawregs') and self.rng.chance(0.2):
            self.use('rawregs')
            return self.env.reg_text(reg)
        return text

    # ------------------------------------------------------------------ expressions
    def lit(self, ty):
        r = self.rng
        if ty == INT:
            return str(r.wpick([(r.randint(0, 9), 6), (r.pick([0, 1, 2, 3, 7, 10, 100, 255, 256, 65535, 65536]), 2), (r.pick([2147483647, 123456789]), 0.3)]))
        v = r.wpick([(r.randint(0, 80) / 10.0, 5), (r.pick([0.0, 0.5, 1.0, 1.5, 2.0, 0.25, 3.0]), 3), (r.pick([100.0, 0.001, 12345.5]), 0.5)])
        s = repr(float(v))
        return s

    def read_var(self, ty):
        """A variable read of type ty (possibly a cast read of the other type via sigil)."""
        r = self.rng
        if self.has('sigils') and r.chance(0.15):
            other = FLOAT if ty == INT else INT
            cands = self.vars_of(other)
            if cands:
                text, reg = r.pick(cands)
                self.mention(reg); self.use('sigils'); self.nreads += 1
                return ('$' if ty == INT else '%') + self.var_text(text, reg)
        cands = self.vars_of(ty)
        if not cands: return self.lit(ty)
        text, reg = r.pick(cands)
        self.nreads += 1
        self.mention(reg)
        t = self.var_text(text, reg)
        if self.has('sigils') and r.chance(0.1):
            self.use('sigils')
            return ('$' if ty == INT else '%') + t
        return t

    def atom(self, ty):
        if self.rng.chance(0.45): return self.lit(ty)
        return self.read_var(ty)

    def wrong(self, ty):
        """An expression that is NOT of type ty (no cast): makes the surrounding construct ill-typed."""
        r = self.rng
        other = FLOAT if ty == INT else INT
        k = r.wpick([('lit', 3), ('var', 3), ('str', 1), ('expr', 1)])
        if k == 'var':
            cands = self.vars_of(other)
            if cands:
                text, reg = r.pick(cands); self.mention(reg)
                return self.var_text(text, reg), 'var-of-' + other
        if k == 'str': return '"text"', 'string'
        if k == 'expr': return '(%s + %s)' % (self.lit(other), self.lit(other)), 'expr-of-' + other
        return self.lit(other), 'literal-' + other

    def expr(self, ty, depth=None):
        r = self.rng
        if not self.no_inject:
            self.opportunities += 1
            if self.inject_at is not None and self.opportunities == self.inject_at:
                text, what = self.wrong(ty)
                self.injected = {'wanted': ty, 'got': what, 'context': list(self.cstack[-2:]), 'block_depth': len(self.scopes) - 1}
                return text
        if depth is None: depth = r.randint(0, self.expr_depth)
        if depth <= 0 or r.chance(0.15): return self.atom(ty)
        opts = []
        if self.has('arith'): opts.append(('arith', 5))
        if self.has('div'): opts.append(('div', 1))
        if self.has('neg'): opts.append(('neg', 1))
        if self.has('ternary') and not getattr(self, 'no_ternary', 0): opts.append(('ternary', 1))
        if self.has('diffswitch'): opts.append(('diffswitch', 0.7))
        if self.has('casts'): opts.append(('cast', 1))
        if ty == INT:
            if self.has('cmp_value'): opts.append(('cmp', 2))
            if self.has('logic_value'): opts.append(('logic', 1.5))
            if self.has('bitwise'): opts.append(('bitwise', 1.5))
            if self.has('not'): opts.append(('not', 0.7))
        else:
            if self.has('math'): opts.append(('math', 1.5))
        if not opts: return self.atom(ty)
        k = r.wpick(opts)
        self.use(k)
        d = depth - 1
        P = lambda s: '(' + s + ')'
        if k == 'arith':
            op = r.pick(['+', '-', '*'])
            return '%s %s %s' % (self.operand(ty, d), op, self.operand(ty, d))
        if k == 'div':
            op = r.pick(['/', '%'])
            if ty == INT: div = str(r.pick([1, 2, 3, 5, 7, 16]))
            else: div = r.pick(['2.0', '0.5', '3.0', '1.5'])
            return '%s %s %s' % (self.operand(ty, d), op, div)
        if k == 'neg':
            return '-' + self.operand(ty, d, unary=True)
        if k == 'ternary':
            n0 = self.nreads
            # no ternary inside a ternary condition: keeps "condition is a compile-time constant" decidable by `nreads`
            self.no_ternary = getattr(self, 'no_ternary', 0) + 1
            with self.within('ternary'):
                c = self.operand(INT, d)
            self.no_ternary -= 1
            # a condition without any variable read is a compile-time constant: one branch is dead code
            with self.within('ternary-const-cond' if self.nreads == n0 else 'ternary'):
                return '%s ? %s : %s' % (c, self.operand(ty, d), self.operand(ty, d))
        if k == 'diffswitch':
            n = r.randint(2, 4)
            with self.within('diffswitch'):
                cases = [self.operand(ty, min(d, 1))]
                for _ in range(n - 1):
                    cases.append('' if r.chance(0.25) else self.operand(ty, min(d, 1)))
            return P(':'.join(cases))
        if k == 'cast':
            other = FLOAT if ty == INT else INT
            self.no_inject += 1
            inner = self.expr(other, d)
            self.no_inject -= 1
            fn = r.pick(['_S', 'int', '$'] if ty == INT else ['_f', 'float', '%'])
            return '%s(%s)' % (fn, inner)
        if k == 'cmp':
            t2 = r.pick([INT, FLOAT])
            return '%s %s %s' % (self.operand(t2, d), r.pick(['==', '!=', '<', '<=', '>', '>=']), self.operand(t2, d))
        if k == 'logic':
            return '%s %s %s' % (self.operand(INT, d), r.pick(['&&', '||']), self.operand(INT, d))
        if k == 'bitwise':
            op = r.pick(['&', '|', '^', '<<', '>>', '>>>'])
            rhs = self.operand(INT, d) if op in '&|^' else str(r.randint(0, 33))
            return '%s %s %s' % (self.operand(INT, d), op, rhs)
        if k == 'not':
            ops = (['!'] if self.has('lognot') else []) + (['~'] if self.has('bitnot') else [])
            if not ops: return self.atom(ty)
            # NB: always parenthesised: the lexer reads `!6`, `!E`, `!-x` as a (legacy) difficulty token
            return r.pick(ops) + '(' + self.expr(INT, d) + ')'

        if k == 'math':
            fn = r.pick(getattr(self.env, 'math_fns', ['sin', 'cos', 'sqrt']))
            if fn == 'sqrt':
                inner = self.expr(FLOAT, min(d, 1))
                inner = '(%s) * (%s)' % (inner, inner)
            else:
                inner = self.expr(FLOAT, d)
            return '%s(%s)' % (fn, inner)
        return self.atom(ty)

    def operand(self, ty, depth, unary=False):
        e = self.expr(ty, depth)
        # parenthesise anything that is not a plain atom / call
        if any(c in e for c in ' ?:') or (e[:1] in '-!~' ) :
            return '(' + e + ')'
        return e

    def cond(self):
        with self.within('cond'):
            return self._cond()

    def _cond(self):
        """An int condition for if/while (comparisons, && || !)."""
        r = self.rng
        k = r.wpick([('cmp', 6), ('logic', 2 if self.has('logic_cond') else 0), ('expr', 1), ('not', 1 if self.has('logic_cond') else 0)])
        if k == 'cmp':
            t = r.pick([INT, INT, FLOAT])
            lhs = self.operand(t, 1)
            if getattr(self.env, 'nonconst_conds', False) and self.vars_of(t):
                lhs = self.read_var(t)      # every comparison reads at least one variable: nothing for the constant folder to decide
            return '%s %s %s' % (lhs, r.pick(['==', '!=', '<', '<=', '>', '>=']), self.operand(t, 1))
        if k == 'logic':
            self.use('logic_cond')
            return '(%s) %s (%s)' % (self._cond(), r.pick(['&&', '||']), self._cond())
        if k == 'not':
            self.use('logic_cond')
            return '!(%s)' % self._cond()
        if getattr(self.env, 'nonconst_conds', False) and self.vars_of(INT): return self.read_var(INT)
        return self.expr(INT, 1)

    # ------------------------------------------------------------------ statements
    def block(self, depth, nstmts=None, in_loop=False):
        """Returns text of `{ ... }`."""
        r = self.rng
        self.body.max_depth = max(self.body.max_depth, depth)
        self.scopes.append({})
        saved_live = dict(self.live)
        n = nstmts if nstmts is not None else r.randint(1, max(1, self.max_stmts // (depth + 1)))
        parts = []
        for _ in range(n):
            if self.budget <= 0: break
            parts.append(self.stmt(depth, in_loop))
        if self.has('timelabels') and r.chance(0.25):
            d = r.randint(1, 9)
            parts.append('+%d:' % d); self.use('timelabels'); self.tmax += d * (4 if in_loop else 1)
        self.scopes.pop()
        self.live = saved_live
        return '{\n' + '\n'.join(parts) + '\n}'

    def stmt(self, depth, in_loop=False):
        r = self.rng
        self.budget -= 1
        self.body.nstmts += 1
        opts = [('assign', 6)]
        if self.has('calls'): opts.append(('call', 4))
        if self.has('locals'): opts.append(('decl', 2.5))
        if self.has('timelabels'): opts.append(('time', 2))
        if depth < self.max_depth:
            if self.has('if'): opts.append(('if', 2.5))
            if self.has('while'): opts.append(('while', 1))
            if self.has('dowhile'): opts.append(('dowhile', 0.7))
            if self.has('times'): opts.append(('times', 1.2))
            if self.has('loop'): opts.append(('loop', 0.6))
            if self.has('block'): opts.append(('block', 0.6))
            if self.has('goto'): opts.append(('goto', 0.7))
            if self.has('condjump'): opts.append(('condjump', 0.8))
        if in_loop and self.has('break'): opts.append(('break', 0.8))
        if self.has('diffruns') and self.has('difflabels'): opts.append(('diffrun', 1.5))
        k = r.wpick(opts)
        self.body.shape.append(k[0] + str(depth))
        s = getattr(self, 's_' + k)(depth, in_loop)
        if self.has('difflabels') and k in ('assign', 'call') and r.chance(0.15):
            self.use('difflabels')
            D = getattr(self.env, 'diff_names', ['E', 'N', 'H', 'L'])
            s = '{"%s"}: %s' % (r.pick([D[0], D[1], D[2], D[3], D[0] + D[1], D[2] + D[3], D[0] + D[1] + D[2], D[1] + D[2] + D[3], '*', '*-' + D[0]]), s)
        return s

    def s_diffrun(self, depth, in_loop):
        """A run of look-alike instructions under per-difficulty labels (what a difficulty switch compiles to, and the near misses:
        a time label in the middle, a mask with a hole, extra flag bits, an incomplete cover, different instruction kinds)."""
        r = self.rng
        self.use('difflabels'); self.use('diffrun')
        D = list(getattr(self.env, 'diff_names', ['E', 'N', 'H', 'L']))
        extra = list(getattr(self.env, 'diff_extra_names', []))
        # split difficulties 0..3 into 2-4 contiguous groups
        cuts = sorted(r.sample([1, 2, 3], r.randint(1, 3)))
        groups, prev = [], 0
        for c in cuts + [4]: groups.append(D[prev:c]); prev = c
        quirk = r.wpick([('none', 4), ('time-inside', 3), ('hole', 1.5), ('extra-bit', 1.5 if extra else 0), ('incomplete', 1), ('kind-differs', 1), ('shuffled', 0.7)])
        self.use('diffrun:' + quirk)
        if quirk == 'hole' and len(groups) >= 2:
            # move one difficulty into a non-adjacent group
            g = [list(x) for x in groups]
            if len(g[0]) >= 1 and len(g) >= 2: g[-1] = g[-1] + [g[0][0]] if len(g[0]) > 1 or len(g) > 2 else g[-1]; 
            if len(g[0]) > 1: g[0] = g[0][1:]
            groups = [x for x in g if x]
        if quirk == 'incomplete': groups = groups[:-1] or groups
        if quirk == 'shuffled': r.shuffle(groups)
        ty = r.pick([INT, FLOAT])
        cands = self.vars_of(ty, writable=True)
        use_call = not cands or (self.has('calls') and r.chance(0.4) and self.env.calls)
        if use_call and self.env.calls:
            name, op, sig = r.pick([c for c in self.env.calls if len(c[2]) >= 1] or self.env.calls)
            def member(i):
                return '%s(%s);' % (name, ', '.join((str(r.randint(0, 9) + 10 * i) if ch == 'S' else repr(float(r.randint(0, 9)) + 0.5)) for ch in sig))
        elif cands:
            text, reg = r.pick(cands); self.mention(reg, 'assign-lhs'); lhs = self.var_text(text, reg)
            def member(i):
                return '%s = %s;' % (lhs, str(r.randint(0, 9) + 10 * i) if ty == INT else repr(float(r.randint(0, 9) + 10 * i) + 0.5))
        else:
            return self.s_call(depth, in_loop)
        lines = []
        for i, g in enumerate(groups):
            lab = ''.join(g) + (r.pick(extra) if quirk == 'extra-bit' and extra and r.chance(0.6) else '')
            if quirk == 'time-inside' and i >= 1 and r.chance(0.5 if i == 1 else 0.8) and self.has('timelabels'):
                d = r.randint(1, 9); lines.append('+%d:' % d); self.tmax += d * (4 if in_loop else 1); self.use('timelabels')
            m = member(i)
            if quirk == 'kind-differs' and i == len(groups) - 1 and self.has('calls') and self.env.calls:
                m = self.s_call(depth, in_loop)
            lines.append('{"%s"}: %s' % (lab, m))
        return '\n'.join(lines)

    def s_assign(self, depth, in_loop):
        r = self.rng
        ty = r.pick([INT, FLOAT])
        cands = self.vars_of(ty, writable=True)
        if not cands:
            ty = FLOAT if ty == INT else INT
            cands = self.vars_of(ty, writable=True)
        if not cands: return self.s_call(depth, in_loop)
        text, reg = r.pick(cands)
        self.mention(reg, 'assign-lhs')
        lhs = self.var_text(text, reg)
        op = '='
        if self.has('assign_ops') and r.chance(0.4):
            ops = ['+=', '-=', '*=']
            if self.has('div'): ops += ['/=', '%=']
            if ty == INT and self.has('bitwise'): ops += ['|=', '^=', '&=', '<<=', '>>=', '>>>=']
            op = r.pick(ops); self.use('assign_ops')
        if op in ('/=', '%='):
            rhs = str(r.pick([1, 2, 3, 5])) if ty == INT else r.pick(['2.0', '0.5', '4.0'])
        elif op in ('<<=', '>>=', '>>>='):
            rhs = str(r.randint(0, 33))
        else:
            rhs = self.expr(ty)
        if in_loop and ty == FLOAT and op == '*=':
            op = '+='
        return '%s %s %s;' % (lhs, op, rhs)

    def s_call(self, depth, in_loop):
        r = self.rng
        if not self.env.calls: return 'nop();'
        name, opcode, sig = r.pick(self.env.calls)
        self.use('calls')
        with self.within('call-arg'):
            args = [self.expr(INT if c == 'S' else FLOAT, r.randint(0, 2)) for c in sig]
        if r.chance(0.2): name = 'ins_%d' % opcode
        return '%s(%s);' % (name, ', '.join(args))

    def s_decl(self, depth, in_loop):
        r = self.rng
        ty = r.pick([INT, FLOAT])
        self.use('locals')
        n = r.wpick([(1, 5), (2, 1)])
        items = []
        for _ in range(n):
            name = self.fresh_local()
            init = self.expr(ty) if r.chance(0.85) else None
            # declared name becomes visible after its declarator
            if init is None:
                items.append(name)
                # uninitialised: give it a value right away in a following statement (VM reads of uninit vars panic)
                self._post = getattr(self, '_post', []) + ['%s = %s;' % (name, self.lit(ty))]
            else:
                items.append('%s = %s' % (name, init))
            self.scopes[-1][name] = (ty, 'local')
            self.body.nlocals += 1
            self.live[ty] += 1
            self.body.max_live_locals[ty] = max(self.body.max_live_locals[ty], self.live[ty])
        s = '%s %s;' % (ty, ', '.join(items))
        post = getattr(self, '_post', [])
        self._post = []
        return '\n'.join([s] + post)

    def s_time(self, depth, in_loop):
        r = self.rng
        self.use('timelabels')
        if self.has('neg_time') and r.chance(0.15):
            self.use('neg_time')
            return '%d:' % r.randint(-20, 40)
        if r.chance(0.3) and not in_loop and depth == 0:
            # absolute label; never earlier than the current time unless the time_decrease feature is on
            lo = 0 if self.has('time_decrease') else self.tmax
            t = r.randint(lo, lo + 30)
            self.tmax = max(self.tmax, t)
            return '%d:' % t
        d = r.randint(0, 12)
        self.tmax += d * (4 if in_loop else 1)
        return '+%d:' % d

    def s_if(self, depth, in_loop):
        r = self.rng
        self.use('if')
        kw = lambda: 'unless' if r.chance(0.15) else 'if'
        c0 = self.cond()
        if self.has('const_conds') and r.chance(0.1): c0 = r.pick(['0', '1', '5', '2 - 2', '3 == 3']); self.use('const-cond-if')
        s = '%s (%s) %s' % (kw(), c0, self.block(depth + 1, in_loop=in_loop))
        for _ in range(r.wpick([(0, 5), (1, 2), (2, 1)])):
            s += ' else %s (%s) %s' % (kw(), self.cond(), self.block(depth + 1, in_loop=in_loop))
        if r.chance(0.5):
            s += ' else ' + self.block(depth + 1, in_loop=in_loop)
        return s

    def _counter(self):
        """Declare a fresh int local used as a loop counter (never written by random statements)."""
        name = self.fresh_local()
        self.scopes[-1][name] = (INT, 'counter')
        self.body.nlocals += 1
        self.live[INT] += 1
        self.body.max_live_locals[INT] = max(self.body.max_live_locals[INT], self.live[INT])
        return name

    def s_while(self, depth, in_loop):
        r = self.rng
        self.use('while')
        if self.has('const_conds') and r.chance(0.15):
            # a loop that is never entered (constant condition): its body still carries time labels
            self.use('const-false-loop')
            return 'while (%s) %s' % (r.pick(['0', '0', '1 - 1', '3 == 4']), self.block(depth + 1, in_loop=True))
        c = self._counter()
        if self.has('countjump') and r.chance(0.3):
            self.use('countjump')
            n = r.pick([1, 2, 3])
            inner = self.block(depth + 1, in_loop=True)
            return 'int %s = %d;\nwhile (%s) %s' % (c, n + 1, self.env.count_form % c, inner)
        n = r.pick([0, 1, 2, 3])
        body = self.block(depth + 1, in_loop=True)
        body = body[:-1] + '%s += 1;\n}' % c
        return 'int %s = 0;\nwhile (%s < %d) %s' % (c, c, n, body)

    def s_dowhile(self, depth, in_loop):
        r = self.rng
        self.use('dowhile')
        if self.has('const_conds') and r.chance(0.15):
            self.use('const-false-loop')
            return 'do %s while (%s);' % (self.block(depth + 1, in_loop=True), r.pick(['0', '2 - 2']))
        c = self._counter()
        if self.has('countjump') and r.chance(0.3):
            self.use('countjump')
            inner = self.block(depth + 1, in_loop=True)
            return 'int %s = %d;\ndo %s while (%s);' % (c, r.pick([1, 2, 3]), inner, self.env.count_form % c)
        n = r.pick([0, 1, 2, 3])
        body = self.block(depth + 1, in_loop=True)
        body = body[:-1] + '%s += 1;\n}' % c
        return 'int %s = 0;\ndo %s while (%s < %d);' % (c, body, c, n)

    def s_times(self, depth, in_loop):
        r = self.rng
        self.use('times')
        # count: constant, or a reserved count register (must start small and non-negative)
        if r.chance(0.3) and self.env.extra_int:
            text, reg = self.env.extra_int[0]
            self.mention(reg, 'times-count'); self.body.count_regs.add(reg); self.reserved.add(reg)
            count = text
        else:
            count = str(r.pick([0, 1, 2, 3, 4]))
        if self.has('times_clobber') and r.chance(0.3):
            cands = [(t, g) for (t, g) in self.vars_of(INT, writable=True) if g is not None and g not in self.body.count_regs]
            if cands:
                self.use('times_clobber')
                text, reg = r.pick(cands)
                self.mention(reg, 'times-clobber')
                was = reg in self.reserved
                self.reserved.add(reg)
                body = self.block(depth + 1, in_loop=True)
                if not was: self.reserved.discard(reg)
                return 'times(%s = %s) %s' % (text, count, body)
        # the hidden loop counter occupies an int register for the duration of the loop
        self.live[INT] += 1
        self.body.max_live_locals[INT] = max(self.body.max_live_locals[INT], self.live[INT])
        blk = self.block(depth + 1, in_loop=True)
        self.live[INT] -= 1
        return 'times(%s) %s' % (count, blk)

    def s_loop(self, depth, in_loop):
        r = self.rng
        self.use('loop')
        c = self._counter()
        n = r.pick([1, 2, 3])
        body = self.block(depth + 1, in_loop=True)
        # guaranteed exit: counter check + break at a random end of the body
        guard = '%s += 1;\nif (%s >= %d) { break; }' % (c, c, n)
        if r.chance(0.5): body = '{\n' + guard + body[1:]
        else: body = body[:-1] + guard + '\n}'
        self.use('break')
        return 'int %s = 0;\nloop %s' % (c, body)

    def s_block(self, depth, in_loop):
        self.use('block')
        return self.block(depth + 1, in_loop=in_loop)

    def s_break(self, depth, in_loop):
        self.use('break')
        k = self.rng.random()
        if k < 0.4: return 'if (%s) { break; }' % self.cond()
        if k < 0.7: self.use('condbreak'); return '%s (%s) break;' % (self.rng.pick(['if', 'if', 'unless']), self.cond())
        return 'break;'

    def _skipped(self, depth, in_loop):
        """Statements to be jumped over, in their own scope (they are wrapped in a free block)."""
        self.scopes.append({})
        saved = dict(self.live)
        out = [self.stmt(depth + 1, in_loop) for _ in range(self.rng.randint(0, 2))]
        self.scopes.pop()
        self.live = saved
        return out

    def s_goto(self, depth, in_loop):
        """Forward goto over a few statements (same block, so the VM can follow it)."""
        r = self.rng
        self.use('goto')
        lab = self.fresh_label()
        skipped = self._skipped(depth, in_loop)
        t = ' @ %d' % r.randint(0, 30) if (self.has('goto_time') and r.chance(0.3)) else ''
        return 'goto %s%s;\n{\n%s\n}\n%s:' % (lab, t, '\n'.join(skipped), lab)

    def s_condjump(self, depth, in_loop):
        r = self.rng
        self.use('condjump')
        lab = self.fresh_label()
        kw = 'unless' if r.chance(0.2) else 'if'
        if r.chance(0.25) and self.has('countjump'):
            # backward counting jump:  L: ...; if (--c) goto L;
            self.use('countjump')
            c = self._counter()
            skipped = self._skipped(depth, in_loop)
            return 'int %s = %d;\n%s:\n{\n%s\n}\nif (%s) goto %s;' % (c, r.pick([1, 2, 3]), lab, '\n'.join(skipped), self.env.count_form % c, lab)
        cond = self.cond()
        skipped = self._skipped(depth, in_loop)
        return '%s (%s) goto %s;\n{\n%s\n}\n%s:' % (kw, cond, lab, '\n'.join(skipped), lab)

    # ------------------------------------------------------------------ entry
    def generate(self, sentinel=None):
        text = self.block(0)
        if sentinel:
            # a final call whose logged real_time exposes any drift of script time at the end of the body
            text = text[:-1] + sentinel + '\n}'
        self.body.text = text
        return self.body


def gen_body(rng, env, sentinel=None, **kw):
    return BodyGen(rng, env, **kw).generate(sentinel)


# =====================================================================================================
# G-stream: flat label/goto programs with arbitrary jump graphs (not derivable from structured source)

class Stream:
    def __init__(self):
        self.text = ''
        self.used = set()
        self.shape = []
        self.mentioned = set()
        self.count_regs = set()
        self.njumps = 0
        self.nback = 0


def gen_stream(rng, env, counters, n_slots=12, feats=()):
    """counters: [(text, regid)] int registers reserved as back-jump counters (initialised to 0 by the program)."""
    r = rng
    st = Stream()
    F = set(feats)
    nlabels = r.randint(1, max(1, n_slots // 3))
    # decide label positions among slots
    slots = [None] * n_slots
    label_pos = sorted(r.sample(range(n_slots), min(nlabels, n_slots)))
    for k, p in enumerate(label_pos): slots[p] = ('label', 'L%d' % k)
    labels = {('L%d' % k): p for k, p in enumerate(label_pos)}
    ivars = [v for v in env.int_vars if v[1] not in {c[1] for c in counters}]
    fvars = list(env.float_vars)
    def iatom():
        if ivars and r.chance(0.6):
            t, g = r.pick(ivars); st.mentioned.add(g); return t
        return str(r.randint(0, 9))
    def fatom():
        if fvars and r.chance(0.6):
            t, g = r.pick(fvars); st.mentioned.add(g); return t
        return repr(r.randint(0, 80) / 10.0)
    def ivar():
        t, g = r.pick(ivars); st.mentioned.add(g); return t
    def cond():
        # always reads a variable (constant conditions would be re-folded differently per form on recompilation)
        if r.chance(0.75) or not fvars: return '%s %s %s' % (ivar(), r.pick(['==', '!=', '<', '<=', '>', '>=']), iatom())
        t, g = r.pick(fvars); st.mentioned.add(g)
        return '%s %s %s' % (t, r.pick(['<', '>', '<=', '>=']), fatom())
    free_counters = list(counters)
    out = []
    for c, g in counters:
        out.append('%s = 0;' % c); st.mentioned.add(g)
    for i in range(n_slots):
        if slots[i] is not None:
            out.append('%s:' % slots[i][1]); st.shape.append('L'); continue
        k = r.wpick([('call', 4), ('assign', 2), ('fwd', 2), ('cfwd', 2.5), ('back', 2), ('cback', 1.5), ('time', 2 if 'timelabels' in F else 0),
                     ('interrupt', 0.6 if 'interrupt' in F else 0), ('countback', 1.2 if 'countjump' in F else 0), ('labelref', 0.8 if 'labelref' in F else 0)])
        later = [l for l, p in labels.items() if p > i]
        earlier = [l for l, p in labels.items() if p < i]
        tsuffix = (' @ %d' % r.randint(0, 40)) if ('goto_time' in F and r.chance(0.2)) else ''
        if tsuffix: st.used.add('goto_time')
        if k == 'call':
            name, op, sig = r.pick(env.calls)
            out.append('%s(%s);' % (name, ', '.join(iatom() if ch == 'S' else fatom() for ch in sig)))
        elif k == 'assign':
            if ivars and r.chance(0.6):
                t, g = r.pick(ivars); st.mentioned.add(g)
                out.append('%s %s %s;' % (t, r.pick(['=', '+=', '-=']), iatom()))
            elif fvars:
                t, g = r.pick(fvars); st.mentioned.add(g)
                out.append('%s = %s;' % (t, fatom()))
            else: k = 'call'; out.append('nop();')
        elif k == 'fwd' and later:
            out.append('goto %s%s;' % (r.pick(later), tsuffix)); st.njumps += 1
        elif k == 'cfwd' and later:
            out.append('%s (%s) goto %s%s;' % ('unless' if r.chance(0.3) else 'if', cond(), r.pick(later), tsuffix)); st.njumps += 1
        elif k in ('back', 'cback') and earlier and free_counters:
            c, g = free_counters.pop()
            lim = r.pick([1, 2, 3])
            out.append('%s += 1;' % c)
            if k == 'cback' or True:
                # every backward jump is guarded by its own monotone counter, so every program terminates
                extra = (' && (%s)' % cond()) if (k == 'cback' and 'logic_cond' in F) else ''
                out.append('if ((%s < %d)%s) goto %s%s;' % (c, lim, extra, r.pick(earlier), tsuffix))
            st.njumps += 1; st.nback += 1
        elif k == 'countback' and earlier and free_counters:
            # `if (--c) goto L` flavour: c is set right before the target label is impossible here, so guard with a preset
            c, g = free_counters.pop()
            form = env.count_form % c
            # preset the counter at the very top (appended to the prologue)
            out.insert(len(counters), '%s = %d;' % (c, r.pick([1, 2, 3])))
            out.append('if (%s) goto %s%s;' % (form, r.pick(earlier), tsuffix))
            st.njumps += 1; st.nback += 1; st.used.add('countjump')
        elif k == 'labelref' and labels:
            l = r.pick(sorted(labels)); out.append('labelref(offsetof(%s), timeof(%s));' % (l, l)); st.used.add('labelref')
        elif k == 'time':
            out.append('+%d:' % r.randint(0, 9)); st.used.add('timelabels')
        elif k == 'interrupt':
            out.append('interrupt[%d]:' % r.randint(1, 5)); st.used.add('interrupt')
        else:
            out.append('nop();'); k = 'call'
        st.shape.append(k)
    out.append('ins_101();')
    st.text = '{\n' + '\n'.join(out) + '\n}'
    return st


def gen_near_structured(rng, env, counters, feats=(), mutations=None, sentinel='ins_101();'):
    """Flat label/goto programs that are the desugared forms of nested if/else-if chains, while / do-while loops and loops with
    breaks, with 0-2 *perturbations* (a jump retargeted to another label, a label moved by one statement, a `goto end` dropped,
    a jump duplicated): the inputs on which a structure-recovering decompiler is most likely to take a near-miss for the real thing.
    Forward jumps stay forward and every backward jump is guarded by its own counter, so every program terminates."""
    r = rng
    st = Stream()
    F = set(feats)
    ivars = [v for v in env.int_vars if v[1] not in {c[1] for c in counters}]
    free_counters = list(counters)
    items = []           # ('s', text) | ('l', name) | ('j', cond-or-None, target, backward)
    nl = [0]; ncall = [0]
    def label():
        nl[0] += 1; return 'N%d' % nl[0]
    def ivar():
        t, g = r.pick(ivars); st.mentioned.add(g); return t
    def cond():
        return '%s %s %s' % (ivar(), r.pick(['==', '!=', '<', '<=', '>', '>=']), str(r.randint(0, 9)))
    def simple():
        k = r.random()
        if k < 0.55 or not ivars:
            calls = [c for c in env.calls if c[2] == ['S']] or env.calls
            name, op, sig = r.pick(calls); ncall[0] += 1
            return ('s', '%s(%s);' % (name, ', '.join(str(ncall[0]) if ch == 'S' else '1.5' for ch in sig)))
        if k < 0.85: return ('s', '%s %s %d;' % (ivar(), r.pick(['=', '+=', '-=']), r.randint(0, 5)))
        if 'timelabels' in F: st.used.add('timelabels'); return ('s', '+%d:' % r.randint(1, 9))
        return ('s', 'nop();')
    loop_ends = []
    def block(depth, n=None):
        for _ in range(n if n is not None else r.randint(1, 3)):
            k = r.wpick([('simple', 4), ('ifchain', 3 if depth > 0 else 0), ('while', 1.5 if depth > 0 and free_counters else 0),
                         ('dowhile', 1.5 if depth > 0 and free_counters else 0), ('loopbreak', 2 if depth > 0 and free_counters else 0),
                         ('break', 1.5 if loop_ends else 0)])
            st.shape.append(k)
            if k == 'simple': items.append(simple())
            elif k == 'break':
                # leave the innermost or an outer loop, conditionally or not
                tgt = r.pick(loop_ends[-2:])
                items.append(('j', cond() if r.chance(0.7) else None, tgt, False)); st.njumps += 1
            elif k == 'ifchain':
                arms = r.randint(1, 3); has_else = r.chance(0.5)
                end = label()
                for a in range(arms):
                    nxt = label()
                    items.append(('j', '!(%s)' % cond(), nxt, False)); st.njumps += 1
                    block(depth - 1, r.randint(0, 2))
                    if a < arms - 1 or has_else:
                        items.append(('j', None, end, False)); st.njumps += 1
                    items.append(('l', nxt))
                if has_else: block(depth - 1, r.randint(1, 2))
                items.append(('l', end))
            else:
                c, g = free_counters.pop(); st.mentioned.add(g)
                lim = r.randint(1, 3)
                top, end = label(), label()
                items.append(('s', '%s = 0;' % c))
                if k == 'while':
                    items.append(('j', '!(%s < %d)' % (c, lim), end, False)); st.njumps += 1
                items.append(('l', top))
                loop_ends.append(end)
                block(depth - 1, r.randint(1, 3))
                loop_ends.pop()
                items.append(('s', '%s += 1;' % c))
                extra = (' && (%s)' % cond()) if (k == 'loopbreak' and 'logic_cond' in F and r.chance(0.4)) else ''
                items.append(('j', '(%s < %d)%s' % (c, lim, extra), top, True)); st.njumps += 1; st.nback += 1
                items.append(('l', end))
    block(r.pick([1, 2, 2, 3]), r.randint(2, 4))
    # perturbations
    nmut = mutations if mutations is not None else r.pick([0, 1, 1, 1, 2])
    for _ in range(nmut):
        jumps = [i for i, it in enumerate(items) if it[0] == 'j']
        labs = [i for i, it in enumerate(items) if it[0] == 'l']
        if not jumps or not labs: break
        m = r.wpick([('retarget', 5), ('move-label', 2), ('drop-goto', 1.5), ('dup-jump', 1)])
        st.used.add('perturb:' + m)
        if m == 'retarget':
            i = r.pick(jumps); _, c, tgt, back = items[i]
            cands = [items[j][1] for j in labs if (j < i) == back and items[j][1] != tgt]
            if cands: items[i] = ('j', c, r.pick(cands), back)
        elif m == 'move-label':
            i = r.pick(labs)
            j = i + r.pick([-1, 1])
            if 0 <= j < len(items) and not (items[j][0] == 'j' and items[j][3]):     # never move a label across its guarded back-jump
                items[i], items[j] = items[j], items[i]
        elif m == 'drop-goto':
            un = [i for i in jumps if items[i][1] is None]
            if un: del items[r.pick(un)]
        else:
            fw = [i for i in jumps if not items[i][3]]
            if fw:
                i = r.pick(fw); items.insert(r.randint(0, i), items[i])
    if 'labelref' in F:
        labs = [it[1] for it in items if it[0] == 'l']
        for _ in range(r.pick([0, 0, 1, 1, 2])):
            if labs:
                l = r.pick(labs); items.insert(r.randint(0, len(items)), ('s', 'labelref(offsetof(%s), timeof(%s));' % (l, l))); st.used.add('labelref')
    # a forward jump must stay forward after label moves: verify, else drop the jump
    pos = {it[1]: k for k, it in enumerate(items) if it[0] == 'l'}
    out = []
    for k, it in enumerate(items):
        if it[0] == 's': out.append(it[1])
        elif it[0] == 'l': out.append(it[1] + ':')
        else:
            _, c, tgt, back = it
            if tgt not in pos or (pos[tgt] > k) == back: continue
            out.append(('if (%s) goto %s;' % (c, tgt)) if c else 'goto %s;' % tgt)
    if sentinel: out.append(sentinel)
    st.text = '{\n' + '\n'.join(out) + '\n}'
    return st
