"""Instruction signature strings (mapfile syntax): independent parser and argument-encoding model.

Written from the doc-comments of llir/abi.rs and the README mapfile section (DESIGN.md B.7); shares no
code with truth."""
import re, struct

INT_CHARS = {'S': (4, True), 's': (2, True), 'c': (1, True), 'U': (4, False), 'u': (2, False), 'b': (1, False),
             'n': (4, True), 'N': (4, True), 'E': (4, True), 'C': (4, False)}


class Param:
    def __init__(self, ch, attrs):
        self.ch, self.attrs = ch, attrs

    @property
    def is_int(self): return self.ch in INT_CHARS
    @property
    def is_float(self): return self.ch == 'f'
    @property
    def is_string(self): return self.ch in 'zmpP'
    @property
    def is_padding(self): return self.ch in '_-'
    @property
    def is_jump(self): return self.ch in 'ot'
    @property
    def size(self):
        if self.is_int: return INT_CHARS[self.ch][0]
        if self.ch == '_': return 4
        if self.ch == '-': return 1
        if self.ch in 'fot': return 4
        return None
    @property
    def signed(self): return INT_CHARS[self.ch][1]
    @property
    def imm(self): return 'imm' in self.attrs
    @property
    def arg0(self): return 'arg0' in self.attrs
    @property
    def takes_arg(self): return not self.is_padding

    def text(self):
        if not self.attrs: return self.ch
        parts = []
        for k, v in self.attrs.items():
            if v is True: parts.append(k)
            elif isinstance(v, (list, tuple)): parts.append('%s=%s' % (k, ','.join(fmt_scalar(x) for x in v)))
            else: parts.append('%s=%s' % (k, fmt_scalar(v)))
        return '%s(%s)' % (self.ch, ';'.join(parts))


def fmt_scalar(x):
    if isinstance(x, str): return '"%s"' % x
    return str(x)


def parse_sig(s):
    """'Sb(imm;hex)--m(bs=4;mask=0x77,7,16)' -> [Param]"""
    out = []
    i = 0
    while i < len(s):
        ch = s[i]; i += 1
        if ch.isspace(): continue
        attrs = {}
        if i < len(s) and s[i] == '(':
            j = s.index(')', i)
            body = s[i + 1:j]; i = j + 1
            for part in body.split(';'):
                part = part.strip()
                if not part: continue
                if '=' in part:
                    k, v = part.split('=', 1)
                    vals = []
                    for x in v.split(','):
                        x = x.strip()
                        if x.startswith('"'): vals.append(x.strip('"'))
                        else: vals.append(int(x, 0))
                    attrs[k.strip()] = vals if len(vals) > 1 else vals[0]
                else:
                    attrs[part] = True
        out.append(Param(ch, attrs))
    return out


def sig_text(params): return ''.join(p.text() for p in params)


class Unencodable(Exception):
    """The model cannot encode this value (does not fit / not representable): a diagnostic is expected."""


def mask_stream(m, v, a):
    while True:
        yield m & 0xff
        m = (m + v) & 0xff
        v = (v + a) & 0xff


def encode_string(p, s, state):
    """Bytes for a string argument.  state: dict carrying 'furi' (pending furigana bytes)."""
    try:
        raw = s.encode('shift_jis')
    except UnicodeEncodeError:
        raise Unencodable('not Shift-JIS encodable')
    data = bytearray(raw)
    nulless = 'nulless' in p.attrs
    if 'len' in p.attrs:
        n = p.attrs['len']
        if not nulless: data.append(0)
        if len(data) > n: raise Unencodable('string too long for fixed buffer')
        data += b'\0' * (n - len(data))
    else:
        bs = p.attrs.get('bs', 1)
        data.append(0)
        if 'furibug' in p.attrs and state.get('furi') is not None:
            # documented quirk: leftover bytes of the previous furigana string follow the NUL
            prev = state['furi']
            if len(prev) > len(data):
                data += prev[len(data):]
        if bs and len(data) % bs: data += b'\0' * (bs - len(data) % bs)
    m = p.attrs.get('mask', [0, 0, 0])
    if isinstance(m, int): m = [m, 0, 0]
    ms = mask_stream(*m)
    out = bytes(b ^ next(ms) for b in data)
    if p.ch in 'pP':
        out = struct.pack('<I', len(out)) + out
    return out


def fits(p, v):
    """Inside the encoding's own range (round-trip claim is made only here)."""
    n = 8 * p.size
    if p.signed: return -(1 << (n - 1)) <= v <= (1 << (n - 1)) - 1
    return 0 <= v <= (1 << n) - 1


def fits_neither(p, v):
    """Outside [-2^(n-1), 2^n - 1]: fits under neither reading; a diagnostic is required."""
    n = 8 * p.size
    return not (-(1 << (n - 1)) <= v <= (1 << n) - 1)


def encode_args(params, args, reg_mask_style='mask'):
    """args: list aligned with the non-padding params; each is ('i', int) | ('f', float-bits) | ('s', str) | ('ri', regid) | ('rf', regid).
    Returns (blob bytes, param_mask, arg0 or None)."""
    blob = bytearray()
    mask = 0
    bit = 0
    arg0 = None
    it = iter(args)
    state = {}
    for p in params:
        if p.is_padding:
            blob += b'\0' * p.size
            continue
        kind, val = next(it)
        is_reg = kind in ('ri', 'rf')
        if is_reg:
            if p.is_string or p.is_jump or p.arg0: raise Unencodable('register where only an immediate is allowed')
            if p.imm:
                # documented: only a warning; the register number is stored as a plain value, the parameter gets no mask bit
                # (but still occupies its bit position)
                pass
            else:
                if bit >= 16: raise Unencodable('the parameter mask has 16 bits: a register in parameter 17+ cannot be marked')
                mask |= 1 << bit
        bit += 1
        if p.is_int:
            if kind == 'rf': raise Unencodable('float register in int slot')
            v = val
            if p.arg0:
                arg0 = v & 0xffff
                continue
            if is_reg:
                if p.size != 4: raise Unencodable('register in narrow slot')
                blob += struct.pack('<i', v)
            else:
                if fits_neither(p, v): raise Unencodable('integer does not fit')
                blob += (v & ((1 << (8 * p.size)) - 1)).to_bytes(p.size, 'little')
        elif p.is_float:
            if is_reg: blob += struct.pack('<f', float(val))
            else: blob += struct.pack('<I', val)
        elif p.is_string:
            blob += encode_string(p, val, state)
        else:
            raise Unencodable('jump arguments are not modelled')
    return bytes(blob), mask, arg0
