"""The in-process test language environment (truth's own `llir::TestLanguage`) and its mapfile,
with a configurable intrinsic table (native vs fallback encodings, argument orders)."""

# registers (ids chosen freely; TestLanguage has no built-in register file)
INT_REGS = [1000, 1001, 1002, 1003]        # A B C D   (candidates for the scratch pool)
FLOAT_REGS = [1004, 1005, 1006, 1007]      # X Y Z W
EXTRA_INT = [1020, 1021, 1022]             # never scratch: COUNT, P, Q
EXTRA_FLOAT = [1023, 1024]                 # never scratch: U, V
NAMES = {1000: 'A', 1001: 'B', 1002: 'C', 1003: 'D', 1004: 'X', 1005: 'Y', 1006: 'Z', 1007: 'W',
         1020: 'COUNT', 1021: 'P', 1022: 'Q', 1023: 'U', 1024: 'V'}

JUMP, COUNT_JUMP = 1, 2
ANTI_SCRATCH = 99
NOP = 70

ASSIGN_OPS = ['=', '+=', '-=', '*=', '/=', '%=']
ARITH = ['+', '-', '*', '/', '%']
CMPS = ['==', '!=', '<', '<=', '>', '>=']
BITWISE_ASSIGN = ['|=', '^=', '&=', '<<=', '>>=', '>>>=']
BITWISE = ['|', '^', '&', '<<', '>>', '>>>']
LOGIC = ['||', '&&']


class Config:
    """One intrinsic-table configuration."""
    def __init__(self, rng=None, pools='any', **kw):
        self.native_neg = True        # UnOp(-) exists (else via -1*x / 0-x fallbacks)
        self.native_not = False       # UnOp(~)
        self.assign_ops_native = True # a+=b has its own instruction (else via binop)
        self.two_part_cmp = False     # DedicatedCmp + DedicatedCmpJmp instead of CondJmp
        self.count_gt = False         # CountJmp(op=">") instead of CountJmp()
        self.time_loc = False         # jump args ordered `to` instead of `ot`
        self.cmp_values = True        # BinOp(<, ...) etc exist as value-producing instructions
        self.bitwise = True           # BinOp(&,|,^,<<,>>,>>>) and their assign ops exist
        self.logic = True             # BinOp(&&, ||), UnOp(!) exist
        self.math = True              # sin cos sqrt
        self.casts = True             # UnOp($), UnOp(%) ... (none exist as intrinsics in truth; casts compile via sigils)
        self.aliases = True           # registers have names in the mapfile
        self.typed = True             # registers have types in the mapfile
        self.n_int_scratch = 4
        self.n_float_scratch = 4
        self.pad_seed = 0             # != 0: dword padding is inserted into the signatures of the intrinsics (position derived from the seed)
        for k, v in kw.items(): setattr(self, k, v)
        if rng is not None:
            self.native_neg = rng.chance(0.6)
            self.native_not = rng.chance(0.5)
            self.assign_ops_native = rng.chance(0.6)
            self.two_part_cmp = rng.chance(0.3)
            self.count_gt = rng.chance(0.4)
            self.time_loc = rng.chance(0.4)
            self.cmp_values = rng.chance(0.8)
            self.bitwise = rng.chance(0.8)
            self.logic = rng.chance(0.7)
            self.aliases = rng.chance(0.7)
            self.pad_seed = rng.randint(1, 1 << 30) if rng.chance(0.25) else 0
            sizes = [0, 1, 2, 3, 4, 4, 4] if pools == 'any' else [2, 3, 4, 4, 4, 4]
            self.n_int_scratch = rng.pick(sizes)
            self.n_float_scratch = rng.pick(sizes)

    def tag(self):
        return ('pad ' if self.pad_seed else '') + 'neg%d not%d aop%d 2cmp%d cgt%d tl%d cmpv%d bit%d log%d al%d si%d sf%d' % (
            self.native_neg, self.native_not, self.assign_ops_native, self.two_part_cmp, self.count_gt, self.time_loc,
            self.cmp_values, self.bitwise, self.logic, self.aliases, self.n_int_scratch, self.n_float_scratch)

    def scratch(self):
        return INT_REGS[:self.n_int_scratch], FLOAT_REGS[:self.n_float_scratch]

    def lang(self):
        i, f = self.scratch()
        return {'kind': 'test', 'language': 'anm', 'int_regs': i, 'float_regs': f, 'anti_scratch': ANTI_SCRATCH, 'game': 'th10'}

    def mapfile(self):
        L = ['!anmmap', '!gvar_types']
        allregs = INT_REGS + FLOAT_REGS + EXTRA_INT + EXTRA_FLOAT
        if self.typed:
            for r in allregs:
                L.append('%d %s' % (r, '$' if (r in INT_REGS or r in EXTRA_INT) else '%'))
        L.append('!gvar_names')
        if self.aliases:
            for r in allregs: L.append('%d %s' % (r, NAMES[r]))
        names = ['%d nop' % NOP, '100 foo', '101 bar', '110 pad_Sf', '111 pad_fS', '112 pad_bf', '113 pad_f__S']
        sigs = []
        intr = []
        jargs = 'to' if self.time_loc else 'ot'
        sigs.append('%d %s' % (JUMP, jargs)); intr.append('%d Jmp()' % JUMP)
        sigs.append('%d S%s' % (COUNT_JUMP, jargs)); intr.append('%d CountJmp(%s)' % (COUNT_JUMP, 'op=">"' if self.count_gt else ''))
        sigs += ['%d' % ANTI_SCRATCH, '%d' % NOP, '100', '101']
        # plain instructions whose signatures have padding *between* parameters of different types (only used by the typing matrix)
        sigs += ['110 S_f', '111 f_S', '112 b---f', '113 f__S']
        sigs.append('3 S'); intr.append('3 Interrupt()')
        # a plain (non-intrinsic) instruction that takes a label: keeps labels referenced from something that is not a jump
        sigs.append('4 ot'); names.append('4 labelref')
        op = [200]
        def add(sig, text):
            if self.pad_seed and 'Cmp' not in text and 'CondJmp' not in text:
                # interior / leading / trailing padding (jump intrinsics keep `o` and `t` adjacent, which the ABI requires)
                h = (self.pad_seed * 2654435761 + op[0] * 40503) & 0xffffffff
                pos = h % (len(sig) + 1)
                if (h >> 8) % 3: sig = sig[:pos] + '_' + sig[pos:]
            sigs.append('%d %s' % (op[0], sig)); intr.append('%d %s' % (op[0], text)); op[0] += 1
        aops = ASSIGN_OPS if self.assign_ops_native else ['=']
        for a in aops:
            add('SS', 'AssignOp(op="%s"; type="int")' % a)
            add('ff', 'AssignOp(op="%s"; type="float")' % a)
        if self.bitwise and self.assign_ops_native:
            for a in BITWISE_ASSIGN: add('SS', 'AssignOp(op="%s"; type="int")' % a)
        for b in ARITH:
            add('SSS', 'BinOp(op="%s"; type="int")' % b)
            add('fff', 'BinOp(op="%s"; type="float")' % b)
        if self.bitwise:
            for b in BITWISE: add('SSS', 'BinOp(op="%s"; type="int")' % b)
        if self.logic:
            for b in LOGIC: add('SSS', 'BinOp(op="%s"; type="int")' % b)
            add('SS', 'UnOp(op="!"; type="int")')
        if self.cmp_values:
            for c in CMPS:
                add('SSS', 'BinOp(op="%s"; type="int")' % c)
                add('Sff', 'BinOp(op="%s"; type="float")' % c)
        if self.two_part_cmp:
            add('SS', 'DedicatedCmp(type="int")')
            add('ff', 'DedicatedCmp(type="float")')
            for c in CMPS: add(jargs, 'DedicatedCmpJmp(op="%s")' % c)
        else:
            for c in CMPS:
                add('SS' + jargs, 'CondJmp(op="%s"; type="int")' % c)
                add('ff' + jargs, 'CondJmp(op="%s"; type="float")' % c)
        if self.native_neg:
            add('SS', 'UnOp(op="-"; type="int")'); add('ff', 'UnOp(op="-"; type="float")')
        if self.native_not:
            add('SS', 'UnOp(op="~"; type="int")')
        if self.math:
            for m in ['sin', 'cos', 'sqrt']: add('ff', 'UnOp(op="%s"; type="float")' % m)
        # plain instructions with every S/f signature up to 3 args
        calls = []
        code = 300
        for n in range(1, 4):
            for k in range(2 ** n):
                sig = ''.join('f' if (k >> i) & 1 else 'S' for i in range(n))
                sigs.append('%d %s' % (code, sig)); names.append('%d call_%s' % (code, sig))
                calls.append(('call_%s' % sig, code, list(sig)))
                code += 1
        self.calls = calls + [('nop', NOP, []), ('foo', 100, []), ('bar', 101, [])]
        L.append('!ins_names'); L += names
        L.append('!ins_signatures'); L += sigs
        L.append('!ins_intrinsics'); L += intr
        return '\n'.join(L) + '\n'
