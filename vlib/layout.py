"""Independent binary layout parsers (ANM, MSG, STD, old ECL, mission MSG).

Written from the file-format descriptions (field widths and order); used by the oracles to read
*what was actually written* without going through truth's readers.  Every parser raises
LayoutError on malformed input (the monitors only call them on files truth just wrote)."""
import struct


class LayoutError(Exception):
    pass


# When set to a list, every read of the layout parsers is recorded as (absolute offset, width): the *field map* of a file,
# which drives the field-targeted mutations of C16 (every header field, count, offset, size and instruction header the
# parsers know about).
TRACE = None


class R:
    def __init__(self, data, pos=0):
        self.d, self.p = data, pos

    def take(self, n):
        if self.p + n > len(self.d) or n < 0: raise LayoutError('read past end at %d+%d/%d' % (self.p, n, len(self.d)))
        if TRACE is not None: TRACE.append((self.p, n))
        b = self.d[self.p:self.p + n]; self.p += n
        return b

    def u8(self): return self.take(1)[0]
    def i8(self): return struct.unpack('<b', self.take(1))[0]
    def u16(self): return struct.unpack('<H', self.take(2))[0]
    def i16(self): return struct.unpack('<h', self.take(2))[0]
    def u32(self): return struct.unpack('<I', self.take(4))[0]
    def i32(self): return struct.unpack('<i', self.take(4))[0]
    def f32bits(self): return self.u32()
    def eof(self): return self.p >= len(self.d)


class Instr:
    __slots__ = ('offset', 'time', 'opcode', 'size', 'mask', 'blob', 'diff', 'extra')

    def __init__(self, **kw):
        self.extra = None; self.diff = None; self.mask = 0
        for k, v in kw.items(): setattr(self, k, v)

    def as_dict(self):
        return {'offset': self.offset, 'time': self.time, 'opcode': self.opcode, 'size': self.size, 'mask': self.mask,
                'blob': self.blob.hex(), 'diff': self.diff, 'extra': self.extra}


# ------------------------------------------------------------------------------------------ instruction streams

def read_instrs_anm06(r, end=None):
    """ANM v0 and MSG share this header: i16 time, i8 opcode, u8 argsize; a 4-zero-byte terminator."""
    out, start = [], r.p
    while True:
        if end is not None and r.p >= end: break
        if r.eof(): break
        off = r.p - start
        time = r.i16(); op = r.i8(); n = r.u8()
        blob = r.take(n)
        if (time, op, n) == (0, 0, 0):
            # terminal iff at the end boundary / EOF; a real all-zero instruction is followed by more data
            if (end is not None and r.p >= end) or r.eof(): break
        out.append(Instr(offset=off, time=time, opcode=op & 0xff, size=4 + n, blob=blob))
    return out


def read_instrs_anm07(r):
    out, start = [], r.p
    while True:
        off = r.p - start
        op = r.i16(); size = r.u16()
        if op == -1: break
        time = r.i16(); mask = r.u16()
        if size < 8: raise LayoutError('bad instr size')
        out.append(Instr(offset=off, time=time, opcode=op & 0xffff, size=size, mask=mask, blob=r.take(size - 8)))
    return out, r.p - start   # instrs, length including terminator


def read_instrs_std06(r):
    out, start = [], r.p
    while True:
        off = r.p - start
        time = r.i32(); op = r.i16(); n = r.u16()
        if op == -1:
            r.take(12); break
        out.append(Instr(offset=off, time=time, opcode=op & 0xffff, size=8 + 12, blob=r.take(12)))
    return out


def read_instrs_std10(r):
    out, start = [], r.p
    while True:
        off = r.p - start
        time = r.i32(); op = r.i16(); size = r.u16()
        if op == -1:
            r.take(12); break
        out.append(Instr(offset=off, time=time, opcode=op & 0xffff, size=size, blob=r.take(size - 8)))
    return out


def read_instrs_ecl06(r):
    out, start = [], r.p
    while True:
        off = r.p - start
        time = r.i32(); op = r.u16(); size = r.i16(); r.u8(); diff = r.u8(); mask = r.u16()
        if op == 0xffff: break
        if size < 12: raise LayoutError('bad ecl instr size %d' % size)
        out.append(Instr(offset=off, time=time, opcode=op, size=size, diff=diff, mask=mask, blob=r.take(size - 12)))
    return out


def read_instrs_timeline06(r):
    out, start = [], r.p
    while True:
        off = r.p - start
        time = r.i16(); arg0 = r.i16()
        if (time, arg0) == (-1, 4): break
        op = r.u16(); size = r.i16()
        if size < 8: raise LayoutError('bad timeline instr size')
        out.append(Instr(offset=off, time=time, opcode=op, size=size, extra=arg0, blob=r.take(size - 8)))
    return out


def read_instrs_timeline08(r):
    out, start = [], r.p
    while True:
        off = r.p - start
        time = r.i32(); op = r.u16(); size = r.u8(); diff = r.u8()
        if (time, op, size, diff) == (-1, 0, 0, 0): break
        if size < 8: raise LayoutError('bad timeline instr size')
        out.append(Instr(offset=off, time=time, opcode=op, size=size, diff=diff, blob=r.take(size - 8)))
    return out


# ------------------------------------------------------------------------------------------ ANM

ANM_VERSION = {'th06': 0, 'th07': 2, 'th08': 3, 'th09': 3, 'th095': 4, 'th10': 4, 'alcostg': 4, 'th11': 7, 'th12': 7, 'th125': 7, 'th128': 7,
               'th13': 8, 'th14': 8, 'th143': 8, 'th15': 8, 'th16': 8, 'th165': 8, 'th17': 8, 'th18': 8, 'th185': 8}


def cstring(data, pos):
    end = data.index(b'\0', pos) if b'\0' in data[pos:] else len(data)
    return data[pos:end]


def parse_anm(data, game):
    ver = ANM_VERSION[game]
    old = ver < 7
    entries = []
    base = 0
    while True:
        r = R(data, base)
        h = {}
        if old:
            h['num_sprites'] = r.u32(); h['num_scripts'] = r.u32(); h['zero1'] = r.u32()
            h['rt_width'] = r.u32(); h['rt_height'] = r.u32(); h['rt_format'] = r.u32(); h['colorkey'] = r.u32()
            h['name_offset'] = r.u32(); h['unused1'] = r.u32(); h['name2_offset'] = r.u32(); h['version'] = r.u32()
            h['memory_priority'] = r.u32(); h['thtx_offset'] = r.u32(); h['has_data'] = r.u16(); h['unused2'] = r.u16()
            h['next_offset'] = r.u32(); h['unused3'] = r.u32()
            h['offset_x'] = h['offset_y'] = h['low_res_scale'] = 0
        else:
            h['version'] = r.u32(); h['num_sprites'] = r.u16(); h['num_scripts'] = r.u16(); h['zero1'] = r.u16()
            h['rt_width'] = r.u16(); h['rt_height'] = r.u16(); h['rt_format'] = r.u16(); h['name_offset'] = r.u32()
            h['offset_x'] = r.u16(); h['offset_y'] = r.u16(); h['memory_priority'] = r.u32(); h['thtx_offset'] = r.u32()
            h['has_data'] = r.u16(); h['low_res_scale'] = r.u16(); h['next_offset'] = r.u32()
            r.take(24)
            h['colorkey'] = 0; h['name2_offset'] = 0
        sprite_offsets = [r.u32() for _ in range(h['num_sprites'])]
        script_tab = [(r.i32(), r.u32()) for _ in range(h['num_scripts'])]
        e = {'header': h, 'base': base}
        e['path'] = cstring(data, base + h['name_offset'])
        e['path2'] = cstring(data, base + h['name2_offset']) if h['name2_offset'] else None
        sprites = []
        for off in sprite_offsets:
            sr = R(data, base + off)
            sprites.append({'id': sr.u32(), 'x': sr.u32(), 'y': sr.u32(), 'w': sr.u32(), 'h': sr.u32()})
        e['sprites'] = sprites
        bounds = sorted(set([h['name_offset']] + ([h['thtx_offset']] if h['thtx_offset'] else []) + ([h['name2_offset']] if h['name2_offset'] else [])
                            + sprite_offsets + [o for _, o in script_tab]))
        scripts = []
        for sid, off in script_tab:
            sr = R(data, base + off)
            if ver == 0:
                ends = [b for b in bounds if b > off]
                end = base + min(ends) if ends else (base + h['next_offset'] if h['next_offset'] else len(data))
                ins = read_instrs_anm06(sr, end)
                length = sum(i.size for i in ins)
            else:
                ins, length = read_instrs_anm07(sr)
            scripts.append({'id': sid, 'offset': off, 'instrs': ins, 'length': length})
        e['scripts'] = scripts
        if h['thtx_offset']:
            tr = R(data, base + h['thtx_offset'])
            magic = tr.take(4)
            if magic != b'THTX': raise LayoutError('bad THTX magic')
            zero = tr.u16(); fmt = tr.u16(); w = tr.u16(); hh = tr.u16(); size = tr.u32()
            e['thtx'] = {'zero': zero, 'format': fmt, 'width': w, 'height': hh, 'size': size, 'data_offset': tr.p, 'data': tr.take(size)}
        else:
            e['thtx'] = None
        entries.append(e)
        if h['next_offset'] == 0: break
        base += h['next_offset']
        if base >= len(data): raise LayoutError('next_offset past end')
    return entries


# ------------------------------------------------------------------------------------------ MSG

MSG_HAS_FLAGS = {'th06': False, 'th07': False, 'th08': False}


def msg_has_flags(game):
    order = ['th06', 'th07', 'th08', 'th09', 'th095', 'th10', 'alcostg', 'th11', 'th12', 'th125', 'th128', 'th13', 'th14', 'th143', 'th15', 'th16', 'th165', 'th17', 'th18', 'th185']
    return order.index(game) >= order.index('th09')


def parse_msg(data, game):
    r = R(data)
    n = r.u32()
    table = []
    for _ in range(n):
        off = r.u32()
        flags = r.u32() if msg_has_flags(game) else 0
        table.append((off, flags))
    offsets = sorted({o for o, _ in table if o > 0})
    scripts = {}
    for i, off in enumerate(offsets):
        end = offsets[i + 1] if i + 1 < len(offsets) else len(data)
        scripts[off] = read_instrs_anm06(R(data, off), end)
    return {'table': table, 'scripts': scripts}


# ------------------------------------------------------------------------------------------ STD

def std_is_new(game):
    return game not in ('th06', 'th07', 'th08', 'th09')


def parse_std(data, game):
    r = R(data)
    nobj = r.u16(); nquads = r.u16(); inst_off = r.u32(); script_off = r.u32(); unknown = r.u32()
    out = {'num_objects': nobj, 'num_quads': nquads, 'unknown': unknown}
    if std_is_new(game):
        out['anm_path'] = r.take(128)
    else:
        out['stage_name'] = r.take(128)
        out['bgm_names'] = [r.take(128) for _ in range(4)]
        out['bgm_paths'] = [r.take(128) for _ in range(4)]
    obj_offsets = [r.u32() for _ in range(nobj)]
    objects = []
    for off in obj_offsets:
        o = R(data, off)
        ob = {'id': o.u16(), 'layer': o.u16(), 'pos': [o.u32() for _ in range(3)], 'size': [o.u32() for _ in range(3)], 'quads': []}
        while True:
            kind = o.i16(); size = o.u16()
            if kind == -1: break
            q = {'kind': kind, 'size': size, 'anm_script': o.u16(), 'index': o.u16(), 'data': o.take(size - 8)}
            ob['quads'].append(q)
        objects.append(ob)
    out['objects'] = objects
    ir = R(data, inst_off)
    insts = []
    while True:
        oid = ir.u16(); unk = ir.u16()
        if oid == 0xffff:
            break
        insts.append({'object': oid, 'unknown': unk, 'pos': [ir.u32() for _ in range(3)]})
    out['instances'] = insts
    sr = R(data, script_off)
    out['script'] = read_instrs_std10(sr) if std_is_new(game) else read_instrs_std06(sr)
    out['script_offset'] = script_off
    return out


# ------------------------------------------------------------------------------------------ old ECL

def parse_ecl06(data, game):
    r = R(data)
    if game in ('th08', 'th09', 'th095'):
        magic = r.u32()
    nsubs = r.u16(); hi = r.u16()
    if game == 'th06': ntl = 3
    elif game == 'th09': ntl = hi
    else: ntl = 16
    tl_offsets = [r.u32() for _ in range(ntl)]
    sub_offsets = [r.u32() for _ in range(nsubs)]
    subs = [{'offset': off, 'instrs': read_instrs_ecl06(R(data, off))} for off in sub_offsets]
    used = [o for o in tl_offsets if o]
    if game in ('th07', 'th08', 'th095') and used: used = used[:-1]     # last entry = end of file
    tfmt = read_instrs_timeline06 if game in ('th06', 'th07') else read_instrs_timeline08
    timelines = [{'offset': off, 'instrs': tfmt(R(data, off))} for off in used]
    return {'num_subs': nsubs, 'high': hi, 'subs': subs, 'timelines': timelines, 'timeline_offsets': tl_offsets}


# ------------------------------------------------------------------------------------------ mission

def mission_cipher(stage, scene, player, line):
    m = (7 * (stage & 0xff) + 11 * (scene & 0xff) + 13 * (player & 0xff) + 58) & 0xff
    v = (23 * ((line + 1) & 0xff)) & 0xff
    a = 1
    while True:
        yield m
        m = (m + v) & 0xff
        v = (v + a) & 0xff


def parse_mission(data, game):
    r = R(data)
    n = r.u32()
    offsets = [r.u32() for _ in range(n)]
    entries = []
    for i in range(n):
        e = {}
        e['stage'] = r.u16(); e['scene'] = r.u16()
        if game == 'th095':
            e['face'] = r.u32(); e['point'] = r.u32(); nl = 3; player = 0
        else:
            e['player'] = r.u16(); e['unknown_1'] = r.u8(); e['unknown_2'] = r.u8(); e['point_1'] = r.u32(); e['point_2'] = r.u32()
            e['furigana'] = [[r.u32(), r.u32()] for _ in range(3)]; nl = 6; player = e['player']
        lines = []
        for ln in range(nl):
            raw = r.take(64)
            c = mission_cipher(e['stage'], e['scene'], player, ln)
            dec = bytes((b + next(c)) & 0xff for b in raw)
            lines.append(dec.split(b'\0')[0])
        e['text'] = lines
        entries.append(e)
    return {'offsets': offsets, 'entries': entries}


# ------------------------------------------------------------------------------------------ modern ECL (th10+)

def parse_ecl10(data, game=None):
    r = R(data)
    if r.take(4) != b'SCPT': raise LayoutError('bad SCPT magic')
    r.i16(); inc_len = r.u16(); inc_off = r.u32(); r.u32(); nsubs = r.u32(); r.take(16)
    # include section: 'ANIM' count strings.. (padded to 4) 'ECLI' count strings.. (padded to 4)
    ir = R(data, inc_off)
    includes = {}
    for magic in (b'ANIM', b'ECLI'):
        if ir.take(4) != magic: raise LayoutError('bad %s magic in include section' % magic.decode())
        cnt = ir.u32(); lst = []; nbytes = 0
        for _ in range(cnt):
            st = cstring(data, ir.p); lst.append(st); ir.p += len(st) + 1; nbytes += len(st) + 1
        ir.p += -nbytes % 4
        includes[magic.decode().lower()] = lst
    if ir.p != inc_off + inc_len: raise LayoutError('include section is %d bytes, header says %d' % (ir.p - inc_off, inc_len))
    r = R(data, inc_off + inc_len)
    offs = [r.u32() for _ in range(nsubs)]
    names = []
    for _ in range(nsubs):
        s = cstring(data, r.p); names.append(s); r.p += len(s) + 1
    subs = []
    for i, off in enumerate(offs):
        end = offs[i + 1] if i + 1 < nsubs else len(data)
        sr = R(data, off)
        if sr.take(4) != b'ECLH': raise LayoutError('bad ECLH magic')
        sr.take(12)
        ins = []
        while sr.p < end:
            o = sr.p - off - 16
            time = sr.i32(); op = sr.u16(); size = sr.u16(); mask = sr.u16(); diff = sr.u8(); argc = sr.u8(); pop = sr.u8(); sr.take(3)
            if size < 16: raise LayoutError('bad ecl10 instr size')
            ins.append(Instr(offset=o, time=time, opcode=op, size=size, mask=mask, diff=diff, extra={'argc': argc, 'pop': pop}, blob=sr.take(size - 16)))
        subs.append({'name': names[i], 'offset': off, 'instrs': ins})
    return {'subs': subs, 'anim': includes['anim'], 'ecli': includes['ecli']}
