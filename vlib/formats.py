"""File-level source generators for every tool (truanm, trustd, trumsg stage/ending/mission, truecl).

Each generator returns a `GenFile` with the text, the CLI job description and a ground-truth record."""
from .gensrc import Env, BodyGen, INT, FLOAT
from . import sig as SIG

ANM_GAMES = ['th06', 'th07', 'th08', 'th09', 'th095', 'th10', 'th11', 'th12', 'th125', 'th128', 'th13', 'th14', 'th15', 'th16', 'th17', 'th18']
STD_GAMES = ['th06', 'th07', 'th08', 'th09', 'th095', 'th10', 'th11', 'th12', 'th13', 'th14', 'th16', 'th17', 'th18']
MSG_GAMES = ['th06', 'th07', 'th08', 'th09', 'th10', 'th11', 'th12', 'th128', 'th13', 'th14', 'th15', 'th16', 'th17', 'th18']
END_GAMES = ['th10', 'th11', 'th12', 'th13', 'th14', 'th16', 'th17']
MISSION_GAMES = ['th095', 'th125']
ECL_GAMES = ['th06', 'th07', 'th08', 'th09', 'th095']
ECL10_GAMES = ['th10', 'th11', 'th12', 'th125', 'th128', 'th13', 'th14', 'th143', 'th15', 'th16', 'th165', 'th17', 'th18']
GAME_ORDER = ['th06', 'th07', 'th08', 'th09', 'th095', 'th10', 'alcostg', 'th11', 'th12', 'th125', 'th128', 'th13', 'th14', 'th143', 'th15', 'th16', 'th165', 'th17', 'th18', 'th185']

def game_ge(a, b): return GAME_ORDER.index(a) >= GAME_ORDER.index(b)

JP = ['こんにちは', '東方', 'テスト', 'ｶﾀｶﾅ', '弾幕', '霊夢', '魔理沙', 'ソ', '表', '予定', '能力', '〜']
ASCII_WORDS = ['hello', 'dm', 'stage01.anm', 'bgm/th08_08.mid', 'a b c', 'x', '', 'The quick brown fox', 'C:\\\\path', 'quote\\"q']


class GenFile:
    def __init__(self, tool, game, text, **kw):
        self.tool, self.game, self.text = tool, game, text
        self.msg_mode = kw.get('msg_mode')
        self.truth = kw.get('truth', {})
        self.used = kw.get('used', set())
        self.shape = kw.get('shape', [])

    def compile_job(self, in_path, out_path, **extra):
        j = {'tool': self.tool, 'cmd': 'compile', 'game': self.game, 'in': in_path, 'out': out_path}
        if self.msg_mode: j['msg_mode'] = self.msg_mode
        j.update(extra)
        return j

    def decompile_job(self, in_path, out_path, **extra):
        j = {'tool': self.tool, 'cmd': 'decompile', 'game': self.game, 'in': in_path, 'out': out_path}
        if self.msg_mode: j['msg_mode'] = self.msg_mode
        j.update(extra)
        return j


class SigTables:
    """Built-in signature tables, fetched once per (game, language) through the worker (input-domain knowledge only)."""
    def __init__(self, ctx):
        self.ctx = ctx
        self.cache = {}

    def get(self, game, language):
        k = (game, language)
        if k not in self.cache:
            r = self.ctx.call({'op': 'core_sigs', 'game': game, 'language': language})
            t = {'sigs': {op: SIG.parse_sig(s) for op, s in r['ins_signatures']}, 'intrinsics': dict((op, s) for op, s in r['ins_intrinsics']),
                 'gvar_types': dict((reg, ty) for reg, ty in r['gvar_types'])}
            self.cache[k] = t
        return self.cache[k]


def lit_string(rng, ascii_only=False, maxlen=20):
    r = rng
    if ascii_only or r.chance(0.5):
        s = r.pick(ASCII_WORDS)
    else:
        s = ''.join(r.pick(JP) for _ in range(r.randint(1, 3)))
    return '"%s"' % s[:maxlen]


def lit_arg(rng, p, names=None):
    """A literal source argument for parameter p (never a register)."""
    r = rng
    if p.is_float:
        if r.chance(0.12):
            # very small / very large magnitudes (plain decimal notation: the language has no exponent syntax)
            return r.pick(['0.000025', '-0.00000123', '0.0001', '30000000000000000.0', '-123456789012345680000.0', '16777216.0', '0.000000000000000000000000000000000000011754944',
                           '340282350000000000000000000000000000000.0', '-0.0', '0.1', '1000000.0', '99999.99'])
        return repr(r.pick([0.0, 1.0, -1.0, 0.5, 2.5, 100.0, -3.25, 12345.5]))
    if p.is_string:
        return lit_string(r)
    if p.ch == 'n' and names and names.get('sprites'): return r.pick(names['sprites'])
    if p.ch == 'N' and names and names.get('scripts'): return r.pick(names['scripts'])
    if p.ch == 'E' and names and names.get('subs'): return r.pick(names['subs'])
    en = p.attrs.get('enum')
    if en == 'bool': return r.pick(['true', 'false', '0', '1'])
    if en == 'AnmScript' and names and names.get('scripts') and r.chance(0.5): return r.pick(names['scripts'])
    if en == 'AnmSprite' and names and names.get('sprites') and r.chance(0.5): return r.pick(names['sprites'])
    if en == 'EclSub' and names and names.get('subs'): return r.pick(names['subs'])
    if en == 'MsgScript': return str(r.randint(0, 3))
    n = 8 * p.size
    hi = (1 << (n - 1)) - 1
    v = r.wpick([(r.randint(0, 9), 6), (r.pick([0, 1, 2, 16, 100, 127]), 2), (r.pick([hi, -1, 255 if n >= 16 else 100]), 1)])
    if not p.signed and v < 0: v = 0
    if 'hex' in p.attrs or p.ch == 'C': return r.pick(['%d' % v, '0x%x' % (v if v >= 0 else 0)])
    return str(v)


def classify_calls(table, names=None):
    """Split instructions into (expression-arg calls, literal-arg calls)."""
    expr_calls, lit_calls = [], []
    for op, params in sorted(table['sigs'].items()):
        if op in table['intrinsics']: continue
        if any(p.is_jump for p in params): continue
        if any(p.arg0 for p in params): continue
        simple = all((p.ch in 'Sf' and not p.attrs) or p.is_padding for p in params)
        if simple and len(params) <= 6:
            expr_calls.append(('ins_%d' % op, op, [p.ch for p in params if not p.is_padding]))
        lit_calls.append(('ins_%d' % op, op, params))
    return expr_calls, lit_calls


def near_structured_body(rng, env, game_is_eosd_anm=False):
    """A jump-heavy flat body (see gensrc.gen_near_structured) for generated ANM / old-ECL files, or None if the environment lacks what it needs."""
    from .gensrc import gen_near_structured, Env
    if game_is_eosd_anm or len(env.int_vars) < 3 or 'goto' not in env.feats or 'condjump' not in env.feats: return None
    calls = [c for c in env.calls if c[2] == ['S']]
    if not calls: return None
    e2 = Env(env.int_vars[:1], [], calls, env.feats)
    st = gen_near_structured(rng, e2, list(env.int_vars[1:3]), feats={'timelabels'} & set(env.feats), sentinel=None)
    st.used = set(st.used) | {'near-structured'}
    return st


class FileBodyGen(BodyGen):
    """BodyGen that can also call instructions whose arguments must be literals (strings, narrow ints, names)."""
    def __init__(self, rng, env, lit_calls, names, **kw):
        super().__init__(rng, env, **kw)
        self.lit_calls, self.names = lit_calls, names

    def s_call(self, depth, in_loop):
        r = self.rng
        if self.lit_calls and (not self.env.calls or r.chance(0.6)):
            name, op, params = r.pick(self.lit_calls)
            self.use('calls'); self.use('lit_calls')
            args = []
            for p in params:
                if p.is_padding: continue
                if p.is_string: self.use('string_arg')
                if p.ch in 'nNE' or 'enum' in p.attrs: self.use('named_arg')
                args.append(lit_arg(r, p, self.names))
            return '%s(%s);' % (name, ', '.join(args))
        return super().s_call(depth, in_loop)


# ------------------------------------------------------------------------------------------------------ ANM

def anm_entry_text(rng, game, idx, sprites, has_data=False):
    r = rng
    old = not game_ge(game, 'th11')
    f = ['path: "subdir/file%d.png"' % idx, 'has_data: false']
    w, h = r.pick([(512, 512), (256, 128), (64, 64), (1024, 512)])
    f += ['img_width: %d' % w, 'img_height: %d' % h, 'img_format: %d' % r.pick([1, 3, 5, 7])]
    if not old and r.chance(0.5): f += ['offset_x: %d' % r.randint(0, 8), 'offset_y: %d' % r.randint(0, 8)]
    if old and r.chance(0.4): f.append('colorkey: 0x%x' % r.pick([0, 0xff00ff, 0x123456]))
    if old and r.chance(0.2): f.append('path_2: "subdir/file%d_a.png"' % idx)     # (only the old header has a field for a second path)
    if r.chance(0.4): f.append('memory_priority: %d' % r.pick([0, 10, 11]))
    if not old and r.chance(0.3): f.append('low_res_scale: %s' % r.pick(['true', 'false']))
    sp = ', '.join('%s: {%sx: %s, y: %s, w: %s, h: %s}' % (n, ('id: %d, ' % i) if i is not None else '', *[repr(float(r.randint(0, 512))) for _ in range(4)]) for n, i in sprites)
    f.append('sprites: {%s}' % sp)
    return 'entry {\n    ' + ',\n    '.join(f) + ',\n}\n'


def anm_env(rng, game, tables, feats_override=None):
    t = tables.get(game, 'anm')
    expr_calls, lit_calls = classify_calls(t)
    has_regs = game != 'th06'
    if has_regs:
        from . import realenv
        k = rng.pick([0, 1, 2, 3, 4, 6])
        iv = [('REG[%d]' % g, g) for g in sorted(rng.sample(realenv.ANM_GP_INT, min(k, 6)))]
        fv = [('REG[%d]' % g, g) for g in sorted(rng.sample(realenv.ANM_GP_FLOAT, min(rng.pick([0, 1, 2, 3, 4]), 4)))]
        feats = {'arith', 'div', 'neg', 'ternary', 'locals', 'assign_ops', 'calls', 'if', 'while', 'dowhile', 'times', 'times_clobber', 'loop', 'break',
                 'block', 'goto', 'condjump', 'countjump', 'timelabels', 'logic_cond', 'sigils', 'casts', 'math'}
    else:
        iv, fv = [], []
        feats = {'calls', 'timelabels', 'goto', 'loop', 'block'}
    if feats_override is not None: feats = set(feats_override)
    for x in list(feats):
        if rng.chance(0.1): feats.discard(x)
    env = Env(iv, fv, expr_calls, feats)
    if game in ('th07', 'th08', 'th09'): env.count_form = '--%s > 0'
    env.math_fns = ['sin', 'cos']
    env.nonconst_conds = True
    return env, lit_calls


def gen_anm(rng, game, tables, nscripts=None, **kw):
    r = rng
    nentries = r.wpick([(1, 5), (2, 2), (3, 1)])
    text = ''
    sprite_names, script_names = [], []
    nsp = 0
    entries = []
    for e in range(nentries):
        k = r.randint(0, 3)
        sprites = []
        for _ in range(k):
            explicit = r.chance(0.4)
            sprites.append(('sprite%d' % nsp, nsp if explicit else None)); nsp += 1
        entries.append(sprites)
        sprite_names += [n for n, _ in sprites]
    total_scripts = nscripts if nscripts is not None else r.randint(1, 3)
    script_names = ['script%d' % i for i in range(total_scripts)]
    names = {'sprites': sprite_names, 'scripts': script_names}
    env, lit_calls = anm_env(r, game, tables, kw.get('feats'))
    used, shape = set(), []
    si = 0
    for e, sprites in enumerate(entries):
        text += anm_entry_text(r, game, e, sprites)
        n_here = total_scripts - si if e == nentries - 1 else r.randint(0, total_scripts - si)
        for _ in range(n_here):
            b = near_structured_body(r, env, game == 'th06') if r.chance(0.2) else None
            if b is None:
                g = FileBodyGen(r, env, lit_calls, names, max_depth=r.pick([1, 2, 3]), max_stmts=r.pick([2, 5, 8]), expr_depth=r.pick([1, 2, 3]))
                b = g.generate()
            used |= b.used; shape += b.shape
            num = ('%d ' % r.randint(0, 40)) if r.chance(0.3) else ''
            text += 'script %s%s %s\n' % (num, script_names[si], b.text)
            si += 1
    return GenFile('anm', game, text, used=used, shape=shape, truth={'sprites': sprite_names, 'scripts': script_names})


# ------------------------------------------------------------------------------------------------------ STD

def fl(rng):
    if rng.chance(0.08): return rng.pick(['0.000025', '30000000000000000.0', '-0.0000001', '16777216.0', '-0.0'])
    return repr(rng.pick([0.0, 1.0, -1.0, 10.0, 20.5, -140.91132, 531.2044, 64.0, 6600.0]))
def vec(rng, n): return '[%s]' % ', '.join(fl(rng) for _ in range(n))

def gen_std(rng, game, tables, **kw):
    r = rng
    new = game_ge(game, 'th095')
    strips = game in ('th08', 'th09')
    nobj = r.randint(0, 3)
    objs = []
    for i in range(nobj):
        quads = []
        for _ in range(r.randint(0, 3)):
            if strips and r.chance(0.3):
                quads.append('strip {anm_script: %d, start: %s, end: %s, width: %s}' % (r.randint(0, 9), vec(r, 3), vec(r, 3), fl(r)))
            else:
                quads.append('rect {anm_script: %d, pos: %s, size: %s}' % (r.randint(0, 9), vec(r, 3), vec(r, 2)))
        objs.append('object%d: {layer: %d, pos: %s, size: %s, quads: [%s]}' % (i, r.randint(0, 6), vec(r, 3), vec(r, 3), ', '.join(quads)))
    insts = []
    for _ in range(r.randint(0, 4) if nobj else 0):
        unk = ('unknown: %d, ' % r.pick([256, 0, 512])) if r.chance(0.3) else ''
        insts.append('object%d {%spos: %s}' % (r.randrange(nobj), unk, vec(r, 3)))
    f = ['unknown: %d' % r.pick([0, 1, 7])]
    if new: f.append('anm_path: %s' % lit_string(r, ascii_only=r.chance(0.6)))
    else:
        f.append('stage_name: %s' % lit_string(r))
        f.append('bgm: [%s]' % ', '.join('{path: %s, name: %s}' % (lit_string(r, ascii_only=True), lit_string(r)) for _ in range(4)))
    f.append('objects: {%s}' % ', '.join(objs))
    f.append('instances: [%s]' % ', '.join(insts))
    t = tables.get(game, 'std')
    expr_calls, lit_calls = classify_calls(t)
    feats = set(kw.get('feats') or {'calls', 'timelabels', 'goto', 'loop', 'block', 'neg_time'})
    env = Env([], [], expr_calls, feats)
    g = FileBodyGen(r, env, lit_calls, {}, max_depth=r.pick([1, 2]), max_stmts=r.pick([2, 5, 8]), expr_depth=1)
    b = g.generate()
    text = 'meta {\n    ' + ',\n    '.join(f) + ',\n}\n\nscript main %s\n' % b.text
    return GenFile('std', game, text, used=b.used, shape=b.shape, truth={'objects': nobj})


# ------------------------------------------------------------------------------------------------------ MSG / END

def gen_msg(rng, game, tables, ending=False, **kw):
    r = rng
    lang = 'end' if ending else 'msg'
    t = tables.get(game, lang)
    expr_calls, lit_calls = classify_calls(t)
    nscripts = r.randint(1, 4)
    names = ['script%d' % i for i in range(nscripts)]
    flags = game_ge(game, 'th09')
    rows = []
    idxs = sorted(r.sample(range(0, 8), r.randint(1, 4)))
    if r.chance(0.85):
        # reference every script (an unreferenced script is dropped by decompile: known finding, kept rare)
        while len(idxs) < nscripts: idxs = sorted(set(idxs) | {r.randint(0, 9)})
    pending = list(names)
    for i in idxs:
        fl_ = (', flags: %d' % r.pick([0, 256, 1])) if (flags and r.chance(0.5)) else ''
        nm = pending.pop() if (pending and r.chance(0.9)) else r.pick(names)
        rows.append('%d: {script: "%s"%s}' % (i, nm, fl_))
    if r.chance(0.5): rows.append('default: {script: "%s"}' % r.pick(names))
    meta = 'meta {\n    table: {\n        ' + ',\n        '.join(rows) + ',\n    },\n'
    if r.chance(0.2): meta += '    table_len: %d,\n' % (max(idxs) + 1 + r.randint(0, 3))
    meta += '}\n'
    feats = set(kw.get('feats') or {'calls', 'timelabels'})
    env = Env([], [], expr_calls, feats)
    used, shape = set(), []
    text = meta
    for n in names:
        g = FileBodyGen(r, env, lit_calls, {}, max_depth=0, max_stmts=r.pick([1, 3, 6]), expr_depth=1)
        b = g.generate()
        used |= b.used; shape += b.shape
        text += 'script %s %s\n' % (n, b.text)
    return GenFile('msg', game, text, msg_mode='ending' if ending else None, used=used, shape=shape, truth={'scripts': names, 'table_rows': idxs})


def gen_mission(rng, game, tables=None, **kw):
    r = rng
    items = []
    for _ in range(r.randint(0, 4)):
        if game == 'th095':
            f = ['stage: %d' % r.randint(0, 12), 'scene: %d' % r.randint(0, 9), 'face: %d' % r.randint(0, 3), 'point: %d' % r.randint(0, 100000),
                 'text: [%s]' % ', '.join(lit_string(r, maxlen=12) for _ in range(3))]
        else:
            f = ['stage: %d' % r.randint(0, 14), 'scene: %d' % r.randint(0, 9), 'player: %d' % r.randint(0, 1), 'unknown_1: %d' % r.randint(0, 3),
                 'unknown_2: %d' % r.randint(0, 3), 'point_1: %d' % r.randint(0, 1000), 'point_2: %d' % r.randint(0, 1000),
                 'furigana: [%s]' % ', '.join('[%d, %d]' % (r.randint(0, 9), r.randint(0, 9)) for _ in range(3)),
                 'text: [%s]' % ', '.join(lit_string(r, maxlen=12) for _ in range(6))]
        items.append('entry {\n    ' + ',\n    '.join(f) + ',\n}\n')
    return GenFile('msg', game, '\n'.join(items), msg_mode='mission', used={'mission'}, shape=['entry'] * len(items))


# ------------------------------------------------------------------------------------------------------ old ECL

def ecl_env(rng, game, tables, feats_override=None):
    from . import realenv
    t = tables.get(game, 'ecl')
    expr_calls, lit_calls = classify_calls(t)
    gi, gf = realenv.ECL_GP[game]
    iv = [('REG[%d]' % g, g) for g in sorted(rng.sample(gi, min(rng.pick([0, 1, 2, 3, 4]), len(gi))))]
    fv = [('REG[%d]' % g, g) for g in sorted(rng.sample(gf, min(rng.pick([0, 1, 2, 3]), len(gf))))]
    feats = {'arith', 'div', 'neg', 'ternary', 'locals', 'assign_ops', 'calls', 'if', 'while', 'dowhile', 'times', 'times_clobber', 'loop', 'break',
             'block', 'goto', 'condjump', 'countjump', 'timelabels', 'logic_cond', 'math', 'diffswitch', 'difflabels'}
    if game != 'th06': feats |= {'sigils', 'casts'}
    if feats_override is not None: feats = set(feats_override)
    for x in list(feats):
        if rng.chance(0.1): feats.discard(x)
    feats.add('diffruns')
    env = Env(iv, fv, expr_calls, feats)
    env.math_fns = ['sin', 'cos']
    env.nonconst_conds = True
    # without a mapfile the difficulty flags of old ECL are called 0..7
    env.diff_names = ['0', '1', '2', '3']; env.diff_extra_names = ['4', '5', '6', '7']
    return env, lit_calls


def gen_ecl(rng, game, tables, **kw):
    r = rng
    nsubs = r.randint(1, 3)
    subs = ['sub%d' % i for i in range(nsubs)]
    names = {'subs': subs}
    env, lit_calls = ecl_env(r, game, tables, kw.get('feats'))
    sub_params = {}
    for s_ in subs:
        if not kw.get('subcalls', True): sub_params[s_] = []; continue
        ni, nf = (r.randint(0, 1), r.randint(0, 1)) if game == 'th06' else (r.randint(0, 2), r.randint(0, 2))
        ps = [('int', 'pa%d' % j) for j in range(ni)] + [('float', 'px%d' % j) for j in range(nf)]
        r.shuffle(ps); sub_params[s_] = ps
    # instructions taking sub names are exercised by C20; keep E-typed calls out of random bodies unless names exist
    text = ''
    used, shape = set(), []
    for s in subs:
        b = near_structured_body(r, env) if r.chance(0.2) else None
        if b is None:
            g = FileBodyGen(r, env, lit_calls, names, max_depth=r.pick([1, 2, 3]), max_stmts=r.pick([2, 5, 8]), expr_depth=r.pick([1, 2, 3]))
            b = g.generate()
        used |= b.used; shape += b.shape
        # parameters and calls between subs (EoSD: one int and one float, passed as immediates; PCB-StB: argument registers)
        params = sub_params[s]
        extra = []
        if kw.get('subcalls', True):
            for t, nm in params:
                if r.chance(0.5) and (env.int_vars if t == 'int' else env.float_vars):
                    dst = r.pick(env.int_vars if t == 'int' else env.float_vars)[0]
                    extra.append('%s%s = %s + %s;' % ('$' if t == 'int' else '%', dst, nm, '1' if t == 'int' else '1.0'))
            for _ in range(r.wpick([(0, 3), (1, 2), (2, 1)])):
                callee = r.pick(subs)
                args = []
                for t, _nm in sub_params[callee]:
                    if game == 'th06' or r.chance(0.5): args.append(str(r.randint(0, 9)) if t == 'int' else '%d.5' % r.randint(0, 9))
                    else:
                        pool = env.int_vars if t == 'int' else env.float_vars
                        args.append(('%s%s' % ('$' if t == 'int' else '%', r.pick(pool)[0])) if pool else ('3' if t == 'int' else '3.0'))
                extra.append('%s(%s);' % (callee, ', '.join(args)))
            if extra: used.add('subcalls')
        body_text = b.text
        if extra:
            k = body_text.rstrip().rfind('}')
            body_text = body_text[:k] + '\n'.join(extra) + '\n' + body_text[k:]
        text += 'void %s(%s) %s\n' % (s, ', '.join('%s %s' % p for p in params), body_text)
    tt = tables.get(game, 'timeline')
    _, tl_calls = classify_calls({'sigs': tt['sigs'], 'intrinsics': {}})
    tl_calls_arg0 = [(op, params) for op, params in tt['sigs'].items()]
    ntl = 1 if game == 'th06' else r.randint(1, 3)
    for i in range(ntl):
        lines = []
        tcur = 0
        for _ in range(r.randint(0, 5)):
            if r.chance(0.4):
                if r.chance(0.3): tcur = r.randint(0, 200); lines.append('%d:' % tcur)       # (times may go back: items grouped by kind, not by time)
                else: tcur += r.randint(0, 60); lines.append('%d:' % tcur) if r.chance(0.5) else lines.append('+%d:' % 0)
            op, params = r.pick(tl_calls_arg0)
            args = [lit_arg(r, p, names) for p in params if not p.is_padding]
            # (TH08+ timeline items carry a difficulty byte of their own)
            dl = '{"%s"}: ' % r.pick(['0', '1', '23', '012', '3', '01', '123']) if (game in ('th08', 'th09', 'th095') and r.chance(0.3)) else ''
            lines.append('%sins_%d(%s);' % (dl, op, ', '.join(args)))
        text += 'script timeline%d {\n%s\n}\n' % (i, '\n'.join(lines))
    return GenFile('ecl', game, text, used=used | {'timeline'}, shape=shape, truth={'subs': subs, 'timelines': ntl})


def gen_ecl10(rng, game, tables, **kw):
    """Modern (TH10+) ECL: include lists, named subs, raw instruction calls with literal arguments, time and difficulty labels.
    (truth has no expression compiler for the stack-based ECL; sources are instruction listings.)"""
    r = rng
    t = tables.get(game, 'ecl')
    _e, lit_calls = classify_calls(t)
    lit_calls = [c for c in lit_calls if len(c[2]) <= 8]
    anim = ['"%s"' % r.pick(['a.anm', 'enemy.anm', 'st01.anm', '敵.anm']) for _ in range(r.randint(0, 2))]
    ecli = ['"%s"' % r.pick(['default.ecl', 'st01mbs.ecl', 'b.ecl']) for _ in range(r.randint(0, 2))]
    text = 'meta { anim: [%s], ecli: [%s] }\n' % (', '.join(anim), ', '.join(ecli))
    names = []
    for i in range(r.randint(1, 4)):
        names.append(r.pick(['main', 'Boss', 'sub', 'MainSub']) + str(i))
    used = set()
    for nm in names:
        L = []
        for _ in range(r.randint(0, 7)):
            k = r.random()
            if k < 0.15: L.append(r.pick(['+%d:' % r.randint(0, 60), '%d:' % r.randint(0, 300), '-%d:' % r.randint(1, 5)])); used.add('timelabels')
            elif k < 0.25: L.append('{"%s"}:' % r.pick(['E', 'N', 'EN', 'HL', 'ENHL', 'L', 'NH'])); used.add('difflabels')
            elif k < 0.35 or not lit_calls:
                L.append('ins_%d(@mask=%d, @blob="%s");' % (r.randint(2000, 2010), r.pick([0, 1, 3]), ''.join('%02x' % r.getrandbits(8) for _ in range(4 * r.randint(0, 3))))); used.add('blob')
            else:
                name, op, params = r.pick(lit_calls)
                L.append('%s(%s);' % (name, ', '.join(lit_arg(r, p2, {}) for p2 in params if not p2.is_padding))); used.add('calls')
        text += 'void %s() {\n    %s\n}\n' % (nm, '\n    '.join(L))
    return GenFile('ecl', game, text, used=used, shape=[], truth={'subs': names})


def gen_anm_textured(rng, game, tables, **kw):
    """An ANM file whose entries carry embedded textures (has_data: "dummy"): what `truanm extract` and image sources read."""
    gf = gen_anm(rng, game, tables, **kw)
    def repl(m):
        w, h = rng.pick([(1, 1), (2, 3), (8, 8), (16, 4), (5, 7), (32, 32)])
        return 'has_data: "dummy",\n    img_width: %d,\n    img_height: %d,' % (w, h)
    import re
    gf.text = re.sub(r'has_data: false,\n    img_width: \d+,\n    img_height: \d+,', repl, gf.text)
    return gf


# ------------------------------------------------------------------------------------------------------ dispatch

KINDS = [('anm', ANM_GAMES, gen_anm), ('std', STD_GAMES, gen_std), ('msg', MSG_GAMES, gen_msg), ('end', END_GAMES, lambda r, g, t, **kw: gen_msg(r, g, t, ending=True, **kw)),
         ('mission', MISSION_GAMES, gen_mission), ('ecl', ECL_GAMES, gen_ecl), ('ecl10', ECL10_GAMES, gen_ecl10), ('anmtex', ANM_GAMES, gen_anm_textured)]


def gen_any(rng, tables, kinds=None, weights=None, **kw):
    ks = [k for k in KINDS if kinds is None or k[0] in kinds]
    w = weights or {'anm': 4, 'std': 2, 'msg': 2, 'end': 1, 'mission': 1, 'ecl': 4, 'ecl10': 0, 'anmtex': 0}
    kind = rng.wpick([(k, w.get(k[0], 0 if k[0] in ('ecl10', 'anmtex') else 1)) for k in ks])
    game = rng.pick(kind[1])
    gf = kind[2](rng, game, tables, **kw)
    gf.kind = kind[0]
    return gf
