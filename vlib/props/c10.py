"""C10 - names resolve by lexical scope, independent of how they are spelled."""
import json, os, re
from .. import core
from ..models import scope as S

META = {
    'level': 'exploration',
    'rule': 'scope trees (blocks, loops, conditionals, nested functions with parameters, const items before/after use, declarations in any order) over a pool of 4 variable and 2 function names, '
            'plus register/instruction aliases of this and of another language; per program: the partition of identifier occurrences by DefId reported by the real resolver must equal the partition '
            'computed by an independent scope model, programs with a model-detected error (unknown name, local used across a function/const barrier, redefinition) must be rejected; and '
            'consistently renaming all declared names must not change the compiled output; at file level, ANM scripts/sprites named like register or instruction aliases of the mapfile bind to the declared thing wherever used as a value (checked against the written file and by renaming), and old-ECL files use instruction aliases that exist in both of their languages (subs / timelines), each binding to its own language\'s opcode, an alias of the other language only being an error. distinct = hash(program text); non-trivial = >= 2 declarations sharing a name or >= 1 forward reference',
    'assumptions': ['not generated (undocumented): a local and a const of one name in the same block, a local named like a parameter in the function body block, use of a name in its own initialiser'],
    'floors': {'enum_colour_programs': 30, 'enum_colour_after_padding': 5, 'redefined_alias_programs': 15, 'file_collision_programs': 20, 'file_alias_collisions': 10, 'two_language_programs': 20, 'renamed_compiles_identical': 10, 'partitions_matched': 150, 'expected_errors_rejected': 40, 'renamings_compared': 40, 'shadowing_programs': 50},
}
SIZES = {'quick': 4500, 'thorough': 40000}
UNIQ_RE = re.compile(r'\b(' + '|'.join(S.VARPOOL + S.FUNCPOOL + S.ALIASES + S.INS_ALIASES) + r')_(\d+)\b')
LANG = {'kind': 'test', 'language': 'anm', 'int_regs': [1000, 1001, 1002, 1003], 'float_regs': [], 'game': 'th10'}

def undocumented(g, root):
    """Reject programs that hit combinations the documentation does not fix."""
    bad = [False]
    def walk(blk, param_names):
        loc, con = set(), set()
        for s in blk.stmts:
            if s.kind == 'decl':
                for d, init in s.items:
                    loc.add(d.name)
                    if init and any(isinstance(p, S.Use) and p.name == d.name for p in init): bad[0] = True
            if s.kind == 'const':
                for d, e in s.items:
                    con.add(d.name)
                    if any(isinstance(p, S.Use) and p.name == d.name for p in e): bad[0] = True
        if loc & con or loc & param_names: bad[0] = True
        for s in blk.stmts:
            for sub in ('then', 'other', 'body'):
                b = getattr(s, sub, None)
                if b is not None: walk(b, {p.name for p in s.params} if s.kind == 'func' else set())
    walk(root, set())
    return bad[0]

ANM_HEAD = 'entry { path: "a.png", has_data: false, img_width: 64, img_height: 64, img_format: 3, sprites: {} }\n'
ANM_MAP = '!anmmap\n!gvar_names\n10000 ALIAS\n10001 XLIAS\n'

def compile_rename_case(ctx, r):
    """`compile(P) == compile(rho(P))` bytewise, through the real CLI pipeline (programs without nested functions)."""
    g, root, text = S.generate(r, False, funcs=False)
    if undocumented(g, root) or g.errors: return   # renaming is only meaningful for programs the model accepts
    t2 = S.rename(g, root, r)
    mp = ctx.write('c10.map', ANM_MAP)
    res = []
    for name, body in (('p', text), ('q', t2)):
        src = ctx.write('c10_%s.spec' % name, ANM_HEAD + 'script s ' + body + '\n'); out = os.path.join(ctx.dir, 'c10_%s.anm' % name)
        if os.path.exists(out): os.unlink(out)
        resp = ctx.cli({'tool': 'anm', 'cmd': 'compile', 'game': 'th12', 'in': src, 'out': out, 'maps': [mp]})
        res.append((resp, ctx.read(out)))
    ctx.evaluations += 1
    (ra, da), (rb, db) = res
    if 'panic' in ra or 'panic' in rb: ctx.inconcl('compile panic (C04)'); return
    replay = {'original': text, 'renamed': t2}
    if bool(ra.get('ok')) != bool(rb.get('ok')):
        ctx.violation('scope:renaming:compile-result-differs', 'original ok=%s, renamed ok=%s: %s' % (ra.get('ok'), rb.get('ok'), (ra.get('diag') or rb.get('diag') or '')[:300]), replay); return
    if ra.get('ok'):
        if da != db: ctx.violation('scope:renaming:bytes-differ', 'compiled output changed under a consistent renaming', replay); return
        ctx.count('renamed_compiles_identical')
    else:
        ctx.count('renamed_both_rejected'); ctx.seen('renamed_reject_reasons', core.norm_msg(core.headline(ra.get('diag', '')))[:60])
    ctx.count('renamings_compared')

def file_collision_case(ctx, r):
    """File-level names (ANM scripts and sprites) that collide with register / instruction aliases of the mapfile: wherever such a name is
    used as a value it means the declared thing (it compiles to its index / id), and renaming the declaration and its uses changes nothing."""
    from .. import layout as L
    game = r.pick(['th08', 'th10', 'th12', 'th14', 'th17'])
    mp = '!anmmap\n!gvar_names\n10000 RA\n10001 RB\n10004 FA\n!gvar_types\n10000 $\n10001 $\n10004 %\n!ins_names\n900 doit\n901 dospr\n902 doscr\n!ins_signatures\n900 S\n901 n\n902 N\n'
    pool = ['RA', 'RB', 'FA', 'doit', 'alpha', 'beta', 'gamma']
    nscr, nspr = r.randint(1, 3), r.randint(0, 3)
    names = r.sample(pool, min(len(pool), nscr + nspr))
    scripts, sprites = names[:nscr], names[nscr:nscr + nspr]
    spr_text = ', '.join('%s: {x: 0.0, y: 0.0, w: 1.0, h: 1.0}' % nm for nm in sprites)
    uses = {}       # script -> [(kind, name, expected value)]
    def body(sc):
        lines = []; uses[sc] = []
        for _ in range(r.randint(1, 4)):
            k = r.wpick([('arg', 3), ('expr', 3), ('typed', 2), ('reg', 1)])
            nm = r.pick(scripts + sprites)
            val = scripts.index(nm) if nm in scripts else sprites.index(nm)
            if k == 'arg': lines.append('doit(%s);' % nm); uses[sc].append((900, val))
            elif k == 'expr':
                # a register that is *not* shadowed is the destination; the colliding name is read as a value inside an expression
                dst = next((x for x in ('RA', 'RB') if x not in scripts + sprites), '$REG[10002]')
                lines.append('%s = %s + 1;' % (dst, nm)); lines.append('doit(%s);' % dst); uses[sc].append((900, None))
            elif k == 'typed':
                if nm in sprites: lines.append('dospr(%s);' % nm); uses[sc].append((901, val))
                else: lines.append('doscr(%s);' % nm); uses[sc].append((902, val))
            else: lines.append('doit($REG[10003]);'); uses[sc].append((900, 10003))
        return '\n'.join(lines)
    def render(ren):
        t = 'entry { path: "a.png", has_data: false, img_width: 16, img_height: 16, img_format: 1, sprites: {%s} }\n' % spr_text
        for sc in scripts: t += 'script %s {\n%s\n}\n' % (sc, bodies[sc])
        # (instruction names live in their own namespace: `doit(...)` is the instruction even when a script is called doit)
        for old, new in ren.items(): t = re.sub(r'\b%s\b(?!\s*\()' % old, new, t)
        return t
    bodies = {sc: body(sc) for sc in scripts}
    ren = {nm: 'fresh_%d' % k for k, nm in enumerate(scripts + sprites)}
    mpath = ctx.write('c10.map', mp)
    outs = []
    for tag, text in (('original', render({})), ('renamed', render(ren))):
        src = ctx.write('c10_%s.txt' % tag, text); out = os.path.join(ctx.dir, 'c10_%s.bin' % tag)
        if os.path.exists(out): os.unlink(out)
        c = ctx.cli({'tool': 'anm', 'cmd': 'compile', 'game': game, 'in': src, 'out': out, 'maps': [mpath]})
        if 'panic' in c or 'abort' in c: ctx.inconcl('compile crash (C04)'); return
        outs.append((c.get('ok'), ctx.read(out) if c.get('ok') else None, c.get('diag', ''), text))
    ctx.evaluations += 1
    replay = {'game': game, 'original': outs[0][3], 'renamed': outs[1][3], 'mapfile': mp}
    collide = [nm for nm in scripts + sprites if nm in ('RA', 'RB', 'FA', 'doit')]
    if outs[0][0] != outs[1][0]:
        ctx.violation('scope:file-names:rename-changes-acceptance', 'original %s, renamed %s: %s' % ('compiles' if outs[0][0] else 'fails', 'compiles' if outs[1][0] else 'fails',
                      core.norm_msg(core.headline(outs[0][2] or outs[1][2]))[:200]), replay); return
    if not outs[0][0]:
        ctx.count('file_collision_rejected'); ctx.seen('file_collision_reject_reasons', core.norm_msg(core.headline(outs[0][2]))[:70]); return
    if outs[0][1] != outs[1][1]:
        ctx.violation('scope:file-names:rename-changes-output:%s' % ('alias-collision' if collide else 'no-collision'),
                      'renaming the declared scripts/sprites %s to fresh names changes the compiled file' % (scripts + sprites), replay); return
    # direct oracle: the value compiled for a name is the index / id of the declared thing
    ents = L.parse_anm(outs[0][1], game)
    fscripts = [sc for e in ents for sc in e['scripts']]
    for sc, fs in zip(scripts, fscripts):
        ins = [i for i in fs['instrs'] if i.opcode in (900, 901, 902)]
        for (op, want), i in zip(uses[sc], ins):
            got = int.from_bytes(i.blob[:4], 'little', signed=True)
            if want is not None and (i.opcode != op or got != want):
                ctx.violation('scope:file-names:wrong-binding', 'in script %s an argument compiled to ins_%d(%d), expected ins_%d(%d) (the declared script/sprite)' % (sc, i.opcode, got, op, want), replay); return
    ctx.count('file_collision_programs'); ctx.count('renamings_compared')
    if collide: ctx.count('file_alias_collisions'); ctx.fp('filecoll', outs[0][3])

def two_language_case(ctx, r):
    """Old ECL: subs and timelines are two languages with their own alias tables; a name may be an alias in both."""
    from .. import layout as L
    game = r.pick(['th06', 'th07', 'th08', 'th09', 'th095'])
    shared, only_sub, only_tl = 'shared_name', 'sub_only', 'tl_only'
    mp = ('!eclmap\n!ins_names\n900 %s\n901 %s\n!ins_signatures\n900 S\n901 S\n!timeline_ins_names\n910 %s\n911 %s\n!timeline_ins_signatures\n910 S\n911 S\n'
          '!gvar_names\n%d GV\n' % (shared, only_sub, shared, only_tl, -10001 if game == 'th06' else 10000))
    bad = r.chance(0.3)
    sub_lines, tl_lines, want_sub, want_tl = [], [], [], []
    for _ in range(r.randint(1, 4)):
        nm = r.pick([shared, only_sub]); sub_lines.append('%s(%d);' % (nm, r.randint(0, 9))); want_sub.append(900 if nm == shared else 901)
    for _ in range(r.randint(1, 4)):
        nm = r.pick([shared, only_tl]); tl_lines.append('%s(%d);' % (nm, r.randint(0, 9))); want_tl.append(910 if nm == shared else 911)
    if bad:
        if r.chance(0.5): sub_lines.append('%s(1);' % only_tl)
        else: tl_lines.append('%s(1);' % only_sub)
    order = r.chance(0.5)
    sub_t = 'void s0() {\n%s\n}\n' % '\n'.join(sub_lines); tl_t = 'script timeline0 {\n%s\n}\n' % '\n'.join(tl_lines)
    text = (sub_t + tl_t) if order else (tl_t + sub_t)
    src = ctx.write('c10e.txt', text); out = os.path.join(ctx.dir, 'c10e.bin'); mpath = ctx.write('c10e.map', mp)
    if os.path.exists(out): os.unlink(out)
    c = ctx.cli({'tool': 'ecl', 'cmd': 'compile', 'game': game, 'in': src, 'out': out, 'maps': [mpath]})
    ctx.evaluations += 1
    replay = {'game': game, 'text': text, 'mapfile': mp}
    if 'panic' in c or 'abort' in c: ctx.inconcl('compile crash (C04)'); return
    if bad:
        if c.get('ok'): ctx.violation('scope:two-languages:accepts-alias-of-other-language', 'an instruction alias that exists only in the other language was accepted', replay)
        elif core.has_error_diag(c.get('diag', '')): ctx.count('expected_errors_rejected'); ctx.seen('error_classes', 'alias-of-other-language')
        return
    if not c.get('ok'):
        ctx.violation('scope:two-languages:rejects-valid:%s' % core.norm_msg(core.headline(c.get('diag', '')))[:60], c.get('diag', '')[:300], replay); return
    p = L.parse_ecl06(ctx.read(out), game)
    got_sub = [i.opcode for i in p['subs'][0]['instrs']]; got_tl = [i.opcode for i in p['timelines'][0]['instrs']]
    if got_sub != want_sub or got_tl != want_tl:
        ctx.violation('scope:two-languages:wrong-binding', 'sub opcodes %s (expected %s), timeline opcodes %s (expected %s)' % (got_sub, want_sub, got_tl, want_tl), replay); return
    ctx.count('two_language_programs'); ctx.fp('twolang', text)

def enum_colour_case(ctx, r):
    """A const name that exists in two enums is resolved by the enum type ('colour') of the parameter it is passed to; parameters are matched
    to arguments skipping padding."""
    from .. import layout as L
    game = r.pick(['th08', 'th12', 'th17'])
    vals = {'FooEnum': {'OnlyFoo': 10, 'Name': 20, 'Both2': 21}, 'BarEnum': {'OnlyBar': 30, 'Name': 40, 'Both2': 41}}
    mp = '!anmmap\n' + ''.join('!enum(name="%s")\n%s' % (en, ''.join('%d %s\n' % (v, k) for k, v in d.items())) for en, d in vals.items())
    params = []
    for _ in range(r.randint(1, 5)):
        params.append(r.wpick([('S', 2), ('S(enum="FooEnum")', 3), ('S(enum="BarEnum")', 3), ('_', 2)]))
    if all(p == '_' for p in params): params.append('S(enum="BarEnum")')
    mp += '!ins_signatures\n900 %s\n' % ''.join(params)
    args, want, bad = [], [], False
    for p in params:
        if p == '_': want.append(0); continue
        colour = 'FooEnum' if 'Foo' in p else ('BarEnum' if 'Bar' in p else None)
        k = r.wpick([('lit', 2), ('unique', 2), ('shared', 4), ('qualified', 2)])
        if k == 'lit': v = r.randint(0, 9); args.append(str(v)); want.append(v)
        elif k == 'unique':
            en = colour or r.pick(['FooEnum', 'BarEnum'])          # (a unique name of the *other* enum only draws a warning; not generated)
            nm = 'OnlyFoo' if en == 'FooEnum' else 'OnlyBar'; args.append(nm); want.append(vals[en][nm])
        elif k == 'shared':
            nm = r.pick(['Name', 'Both2']); args.append(nm)
            if colour is None: bad = True; want.append(None)
            else: want.append(vals[colour][nm])
        else:
            en = r.pick(['FooEnum', 'BarEnum']); nm = r.pick(['Name', 'Both2']); args.append('%s.%s' % (en, nm)); want.append(vals[en][nm])
    text = 'entry { path: "a.png", has_data: false, img_width: 16, img_height: 16, img_format: 1, sprites: {} }\nscript s {\nins_900(%s);\n}\n' % ', '.join(args)
    src = ctx.write('c10c.txt', text); out = os.path.join(ctx.dir, 'c10c.bin'); mpath = ctx.write('c10c.map', mp)
    if os.path.exists(out): os.unlink(out)
    c = ctx.cli({'tool': 'anm', 'cmd': 'compile', 'game': game, 'in': src, 'out': out, 'maps': [mpath]})
    ctx.evaluations += 1
    replay = {'game': game, 'text': text, 'mapfile': mp, 'expected': want}
    if 'panic' in c or 'abort' in c: ctx.inconcl('compile crash (C04)'); return
    if bad:
        if c.get('ok'): ctx.violation('scope:enum-colour:accepts-ambiguous-name', 'a name defined in two enums was accepted in a parameter without an enum type', replay)
        elif core.has_error_diag(c.get('diag', '')): ctx.count('expected_errors_rejected'); ctx.seen('error_classes', 'ambiguous-enum-const')
        return
    if not c.get('ok'):
        ctx.violation('scope:enum-colour:rejects-valid:%s' % core.norm_msg(core.headline(c.get('diag', '')))[:60], c.get('diag', '')[:300], replay); return
    ins = [i for i in L.parse_anm(ctx.read(out), game)[0]['scripts'][0]['instrs'] if i.opcode == 900]
    got = [int.from_bytes(ins[0].blob[4 * k:4 * k + 4], 'little', signed=True) for k in range(len(params))] if ins else None
    if got != want:
        ctx.violation('scope:enum-colour:wrong-binding', 'signature %s, call ins_900(%s): stored %s, expected %s' % (''.join(params), ', '.join(args), got, want), replay); return
    ctx.count('enum_colour_programs')
    if '_' in params and any(a in ('Name', 'Both2') for a in args): ctx.count('enum_colour_after_padding')
    ctx.fp('colour', text + mp)

def redefined_alias_case(ctx, r):
    """A register or instruction alias defined again by a later mapfile (or a later line) means the later target."""
    from .. import layout as L
    game = r.pick(['th08', 'th12', 'th17'])
    regs = r.sample([10000, 10001, 10002, 10003], 2); ops = r.sample([900, 901, 902], 2)
    sigs = '!ins_signatures\n900 S\n901 S\n902 S\n'
    m1 = '!anmmap\n!gvar_names\n%d COUNTER\n!gvar_types\n%d $\n%d $\n!ins_names\n%d halt\n' % (regs[0], regs[0], regs[1], ops[0]) + sigs
    m2 = '!anmmap\n!gvar_names\n%d COUNTER\n!ins_names\n%d halt\n' % (regs[1], ops[1])
    same_file = r.chance(0.3)
    if same_file:
        maps = ['!anmmap\n!gvar_names\n%d COUNTER\n%d COUNTER\n!gvar_types\n%d $\n%d $\n!ins_names\n%d halt\n%d halt\n' % (regs[0], regs[1], regs[0], regs[1], ops[0], ops[1]) + sigs]
    else: maps = [m1, m2]
    text = 'entry { path: "a.png", has_data: false, img_width: 16, img_height: 16, img_format: 1, sprites: {} }\nscript s {\nhalt(COUNTER);\nhalt(7);\n}\n'
    src = ctx.write('c10d.txt', text); out = os.path.join(ctx.dir, 'c10d.bin')
    paths = [ctx.write('c10d_%d.map' % k, m) for k, m in enumerate(maps)]
    if os.path.exists(out): os.unlink(out)
    c = ctx.cli({'tool': 'anm', 'cmd': 'compile', 'game': game, 'in': src, 'out': out, 'maps': paths})
    ctx.evaluations += 1
    replay = {'game': game, 'text': text, 'mapfiles': maps}
    if 'panic' in c or 'abort' in c: ctx.inconcl('compile crash (C04)'); return
    if not c.get('ok'):
        ctx.violation('scope:redefined-alias:rejects:%s' % core.norm_msg(core.headline(c.get('diag', '')))[:60], c.get('diag', '')[:300], replay); return
    ins = L.parse_anm(ctx.read(out), game)[0]['scripts'][0]['instrs']
    got = [(i.opcode, int.from_bytes(i.blob[:4], 'little', signed=True), i.mask & 1) for i in ins[:2]]
    want = [(ops[1], regs[1], 1), (ops[1], 7, 0)]
    if got != want:
        ctx.violation('scope:redefined-alias:wrong-binding', 'compiled to (opcode, value, is-register) %s; the later definitions give %s' % (got, want), replay); return
    ctx.count('redefined_alias_programs'); ctx.fp('redef', repr(maps))

def barrier_shadow_case(ctx, r):
    """A nested `const` (or function) whose definition names N, where the innermost visible declaration of N is a local or parameter
    of an enclosing scope *and* N is also defined further out (const item, builtin const): the use refers to the innermost declaration,
    which cannot be used there - an error; it must not quietly fall through to the outer definition.  With the inner declaration
    removed (control) the same program is accepted."""
    name = r.pick(['speed', 'PI', 'x', 'INF'])
    builtin = name in ('PI', 'INF')
    ty = 'float' if builtin else 'int'
    lit = '3.5' if builtin else '3'
    outer = '' if builtin else 'const int %s = 10;\n' % name
    inner_kind = r.pick(['local', 'local-in-loop', 'local-deeper'])
    use = r.pick(['%s * 2', '%s', '(%s + 1) - 1', '1 ? %s : 0']) % name if not builtin else r.pick(['%s * 2.0', '%s']) % name
    nested = 'const %s twice = %s;' % (ty, use)
    depth = r.randint(0, 2)
    for _ in range(depth): nested = '{\n%s\n}' % nested
    decl = '%s %s = %s;' % (ty, name, lit)
    def prog(with_inner):
        d = decl if with_inner else ''
        if inner_kind == 'local': body = '%s\n%s' % (d, nested)
        elif inner_kind == 'local-in-loop': body = 'loop {\n%s\n%s\nbreak;\n}' % (d, nested)
        else: body = '{\n%s\n{\n%s\n}\n}' % (d, nested)
        return '{\n%s%s\n}' % (outer, body)
    for with_inner in (True, False):
        text = prog(with_inner)
        req = {'op': 'resolve', 'lang': LANG, 'mapfiles': S.MAPFILES, 'body': text, 'kind': 'block'}
        resp = ctx.call(req); ctx.evaluations += 1
        replay = {'req': req, 'expected': 'rejected (local used across a const barrier)' if with_inner else 'accepted'}
        if 'panic' in resp: ctx.violation('scope:panic:' + core.panic_sig(resp['panic']), resp['panic']['msg'][:200], replay); return
        if resp.get('stage') != 'done': ctx.inconcl('parse failure of directed program'); return
        if with_inner and resp['resolved']:
            ctx.violation('scope:accepts:local-across-const:shadowed-outer-definition', 'the nested const names `%s`, whose innermost declaration is an enclosing local; accepted (bound to the outer definition?)' % name, replay); return
        if not with_inner and not resp['resolved']:
            ctx.violation('scope:rejects-valid:%s' % core.norm_msg(core.headline(resp.get('diag', '')))[:60], resp.get('diag', '')[:300], replay); return
    ctx.count('barrier_shadow_cases'); ctx.fp('barrier', name, inner_kind, depth, use)

def run_shard(ctx):
    r = ctx.rng
    n = SIZES[ctx.tier] // ctx.nshards + 1
    done = 0
    while done < n:
        k = r.random()
        if k > 0.96: barrier_shadow_case(ctx, r); done += 1; continue
        if k < 0.10: file_collision_case(ctx, r); done += 1; continue
        if k < 0.16: two_language_case(ctx, r); done += 1; continue
        if k < 0.24: enum_colour_case(ctx, r); done += 1; continue
        if k < 0.28: redefined_alias_case(ctx, r); done += 1; continue
        if r.chance(0.15):
            compile_rename_case(ctx, r); done += 1; continue
        want_error = r.chance(0.3)
        g, root, text = S.generate(r, want_error)
        if undocumented(g, root): continue
        done += 1
        req = {'op': 'resolve', 'lang': LANG, 'mapfiles': S.MAPFILES, 'body': text, 'kind': 'block'}
        resp = ctx.call(req)
        ctx.evaluations += 1
        replay = {'req': req, 'model_errors': g.errors, 'expected': [(k, (x.name, getattr(x, 'expect', None)) if k == 'use' else (x.name, x.uid)) for k, x in g.occ]}
        if 'panic' in resp:
            ctx.violation('scope:panic:' + core.panic_sig(resp['panic']), resp['panic']['msg'][:200], replay); continue
        if resp.get('stage') != 'done':
            ctx.inconcl('parse failure of generated program: ' + core.norm_msg(core.headline(resp.get('diag', '')))[:60]); continue
        if g.errors:
            if resp['resolved']:
                ctx.violation('scope:accepts:%s' % sorted(set(g.errors))[0], 'model expects a resolution error (%s) but the resolver accepted' % sorted(set(g.errors)), replay)
            else:
                ctx.count('expected_errors_rejected'); ctx.seen('error_classes', sorted(set(g.errors))[0]); ctx.fp('err', text)
            continue
        if not resp['resolved']:
            ctx.violation('scope:rejects-valid:%s' % core.norm_msg(core.headline(resp.get('diag', '')))[:60], resp.get('diag', '')[:400], replay); continue
        # occurrences in *text* order, from the resolver's own "make identifiers unique" rendering (name_<k>: same k = same definition)
        ut = resp.get('unique_text') or ''
        got = [(m.group(1), m.group(1) + '#' + m.group(2)) for m in UNIQ_RE.finditer(ut)]
        names_model = [x.name for _, x in g.occ]
        names_got = [n for n, _ in got]
        if names_model != names_got:
            raise core.HarnessError('identifier sequence of the rendered program differs from the generated one:\n%s\n%s\nmodel %s\ngot   %s' % (text, ut, names_model, names_got))
        # partition comparison: model key per occurrence vs reported def id
        m2g, g2m, bad = {}, {}, None
        for (kind, x), (nm, did) in zip(g.occ, got):
            key = x.uid if kind == 'decl' else (x.expect[1] if x.expect[0] == 'def' else '%s:%s' % x.expect)
            if did is None: bad = (nm, key, did); break
            if m2g.setdefault(key, did) != did or g2m.setdefault(did, key) != key: bad = (nm, key, did); break
        if bad:
            sit = 'use' if bad[1].startswith(('local', 'const', 'param', 'func')) else bad[1].split(':')[0]
            ctx.violation('scope:wrong-binding:%s' % bad[1].split('#')[0], 'occurrence of %s should bind to %s (resolver says def %s)' % bad, dict(replay, unique_text=resp.get('unique_text')))
            continue
        ctx.count('partitions_matched')
        decl_names = [x.name for k, x in g.occ if k == 'decl']
        shadow = len(decl_names) != len(set(decl_names))
        if shadow: ctx.count('shadowing_programs'); ctx.fp('ok', text)
        for k, x in g.occ:
            if k == 'use' and x.expect[0] == 'alias': ctx.count('alias_uses'); break
        # renaming invariance of the resolved structure: the renamed program must resolve to the same partition
        if r.chance(0.4):
            t2 = S.rename(g, root, r)
            r2 = ctx.call(dict(req, body=t2))
            ctx.count('renamings_compared')
            if not r2.get('resolved'):
                ctx.violation('scope:renaming:rejected', 'renamed program rejected: ' + (r2.get('diag') or '')[:300], {'req': dict(req, body=t2), 'original': text})
            else:
                part = lambda ids: [ [i for i, (_, d) in enumerate(ids) if d == dd] for dd in dict.fromkeys(d for _, d in ids) ]
                got2 = [(m.group(1), m.group(1) + '#' + m.group(3)) for m in re.finditer(r'\b((?:[abcdfg])_r(\d+))_(\d+)\b|\b(ALIAS|XLIAS|alias_ins)_(\d+)\b', r2.get('unique_text') or '') if m.group(1)]
                got1 = [x for x in got if x[0] in S.VARPOOL + S.FUNCPOOL]
                if part(got1) != part(got2):
                    ctx.violation('scope:renaming:partition-changed', 'renaming changed which occurrences share a definition', {'req': dict(req, body=t2), 'original': text})
        ctx.sample({'program': text[:500], 'unique': (resp.get('unique_text') or '')[:500]}, cap=2)

def replay(path):
    rec = json.load(open(path))
    w = core.Worker('dev'); resp = w.call(rec['req']); w.close()
    print(rec['req']['body']); print(json.dumps({k: resp.get(k) for k in ('resolved', 'diag', 'unique_text', 'idents')}, indent=1)[:3000]); print('model errors:', rec.get('model_errors'))
    return 0
