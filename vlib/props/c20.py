"""C20 - a name used in a script compiles to the id its target has in the output file."""
import json, os
from .. import core, layout as L, argcodec as AC

META = {
    'level': 'exploration',
    'rule': 'generated layouts with 1..6 entries/scripts/sprites/subs/objects in any order, explicit ids anywhere (decreasing, duplicate, const-expression ids, ids restarting the automatic numbering across '
            'entries), duplicate sprite names across ANM entries (same and different values), sparse MSG tables with default and shared scripts, names used before their definition; the expected id of every '
            'name is computed from the documented rule, and compared with (1) the tables of the written file (independent layout parser) and (2) the argument value of every instruction that uses the name. '
            'Conflicting definitions / unknown names must be errors. distinct = hash(layout); non-trivial = >= 2 named things and >= 1 explicit id or reordering',
    'assumptions': ['numbering rules as in DESIGN.md B.5 (README "ANM files", doc/syntax.md, comments in anm/mod.rs)'],
    'floors': {'anm_layouts': 80, 'msg_layouts': 60, 'ecl_layouts': 40, 'std_layouts': 40, 'names_checked': 800, 'expected_errors': 20},
}
SIZES = {'quick': 3600, 'thorough': 40000}

def anm_case(ctx, r):
    game = r.pick(['th07', 'th08', 'th10', 'th12', 'th14', 'th17'])
    nent = r.randint(1, 3)
    # directed: one name defined in many entries (3..5 definitions: all equal, or equal at first and different later)
    many_defs = r.chance(0.15)
    if many_defs: nent = r.randint(3, 5); ctx.count('anm_many_definitions_cases')
    consts = {}
    if r.chance(0.4): consts['BASE'] = r.randint(0, 50)
    text = ''.join('const int %s = %d;\n' % kv for kv in consts.items())
    def const_id_expr():
        # (text, value): constant expressions over BASE with operators whose value is easy to state independently
        K = consts['BASE']
        n, a, b, m = r.randint(1, 9), r.randint(0, 60), r.randint(0, 60), r.pick([1, 2, 4, 6, 8, 12])
        return r.pick([('BASE + %d' % n, K + n), ('BASE * %d' % n, K * n), ('(BASE & %d) ? %d : %d' % (m, a, b), a if K & m else b), ('(BASE > %d) ? %d : %d' % (n, a, b), a if K > n else b),
                       ('(BASE %% %d) + %d' % (n, a), K % n + a), ('BASE << 1', K << 1), ('(BASE | %d) - (BASE & %d)' % (m, m), (K | m) - (K & m)), ('BASE ? %d : %d' % (a, b), a if K else b),
                       ('(BASE == %d) + %d' % (K, a), 1 + a), ('(BASE * 3 + %d) / 2' % n, (K * 3 + n) // 2), ('(%d ? BASE : %d) + %d' % (n + 1, a, b), K + b)])
    next_id = 0
    sprites = {}        # name -> expected id
    sprite_lists = []
    conflict = False
    nsp = 0
    names_pool = []
    for e in range(nent):
        items = []
        lst = []
        for _ in range(r.randint(0, 4)):
            if names_pool and r.chance(0.7 if many_defs else 0.12):
                name = r.pick(names_pool)                      # duplicate name across entries
                if any(name == n for n, _ in lst): continue
            else:
                name = 'spr%d' % nsp; nsp += 1
            k = r.wpick([('auto', 5), ('explicit', 3), ('const', 2.5 if consts else 0), ('same-as-before', (12 if many_defs else 1.5) if name in sprites else 0)])
            if k == 'auto': idv, idtext = next_id, None
            elif k == 'explicit': idv = r.pick([next_id, r.randint(0, 60), max(0, next_id - r.randint(1, 5))]); idtext = str(idv)
            elif k == 'const': idtext, idv = const_id_expr(); idtext = '(%s)' % idtext
            else: idv = sprites[name]; idtext = str(idv)
            next_id = idv + 1
            if name in sprites and sprites[name] != idv: conflict = True
            sprites.setdefault(name, idv)
            lst.append((name, idv)); names_pool.append(name)
            items.append('%s: {%sx: 1.0, y: 2.0, w: 3.0, h: 4.0}' % (name, ('id: %s, ' % idtext) if idtext else ''))
        sprite_lists.append(lst)
        text += 'entry { path: "e%d.png", has_data: false, img_width: 64, img_height: 64, img_format: 3, sprites: {%s} }\n' % (e, ', '.join(items))
        # scripts of this entry are appended below (after deciding the global script list)
        text += '@@SCRIPTS%d@@\n' % e
    nscripts = r.randint(1, 5)
    snames = ['scr%d' % i for i in range(nscripts)]
    order = list(snames); r.shuffle(order) if r.chance(0.5) else None
    per_entry = [[] for _ in range(nent)]
    for nm in order: per_entry[r.randrange(nent)].append(nm)
    file_order = [nm for lst in per_entry for nm in lst]
    uses = []   # (script name, kind, name used, expected value)
    next_sid = 0; script_ids = {}
    unknown = False
    for e in range(nent):
        chunk = ''
        for nm in per_entry[e]:
            lines = []
            for _ in range(r.randint(0, 4)):
                if sprites and r.chance(0.5):
                    u = r.pick(sorted(sprites)); lines.append('ins_900(%s);' % u); uses.append((nm, 'sprite', u, sprites[u]))
                elif r.chance(0.85):
                    u = r.pick(snames); lines.append('ins_901(%s);' % u); uses.append((nm, 'script', u, file_order.index(u)))
                else:
                    lines.append('ins_900(nosuchsprite);'); unknown = True
            if r.chance(0.4): sid = r.randint(0, 90); num = '%d ' % sid
            else: sid = next_sid; num = ''
            next_sid = sid + 1; script_ids[nm] = sid
            chunk += 'script %s%s {\n%s\n}\n' % (num, nm, '\n'.join(lines))
        text = text.replace('@@SCRIPTS%d@@\n' % e, chunk)
    mp = ctx.write('c20.map', '!anmmap\n!ins_signatures\n900 n\n901 N\n')
    src = ctx.write('c20.txt', text); out = os.path.join(ctx.dir, 'c20.bin')
    if os.path.exists(out): os.unlink(out)
    c = ctx.cli({'tool': 'anm', 'cmd': 'compile', 'game': game, 'in': src, 'out': out, 'maps': [mp]})
    ctx.evaluations += 1
    replay = {'text': text, 'game': game, 'expected_sprites': sprites, 'script_order': file_order}
    if 'panic' in c or 'abort' in c: ctx.inconcl('compile crash (C04)'); return
    if conflict or unknown:
        if c.get('ok'): ctx.violation('numbering:anm:%s-accepted' % ('conflicting-sprite-ids' if conflict else 'unknown-name'), 'compiled although %s' % ('one sprite name has two ids' if conflict else 'a name does not exist'), replay)
        elif core.has_error_diag(c.get('diag', '')): ctx.count('expected_errors')
        return
    if not c.get('ok'):
        ctx.violation('numbering:anm:rejects-valid:%s' % core.norm_msg(core.headline(c.get('diag', '')))[:50], c.get('diag', '')[:300], replay); return
    ents = L.parse_anm(ctx.read(out), game)
    # (1) tables
    for lst, e in zip(sprite_lists, ents):
        got = [s['id'] for s in e['sprites']]
        if got != [i for _, i in lst]:
            ctx.violation('numbering:anm:sprite-id-table', 'entry sprites %s: file has ids %s, rule gives %s' % ([n for n, _ in lst], got, [i for _, i in lst]), replay); return
    scripts = [s for e in ents for s in e['scripts']]
    if len(scripts) != len(file_order):
        ctx.violation('numbering:anm:script-count', '%d scripts in file, %d in source' % (len(scripts), len(file_order)), replay); return
    got_ids = [sc['id'] for sc in scripts]
    if got_ids != [script_ids[nm] for nm in file_order]:
        ctx.violation('numbering:anm:script-id-field', 'script ids in file %s, rule gives %s' % (got_ids, [script_ids[nm] for nm in file_order]), replay); return
    # (2) uses
    byname = dict(zip(file_order, scripts))
    idx = {}
    for (snm, kind, u, want) in uses:
        k = idx.get(snm, 0); idx[snm] = k + 1
        ins = [i for i in byname[snm]['instrs'] if i.opcode in (900, 901)][k]
        got = int.from_bytes(ins.blob[:4], 'little', signed=True)
        if got != want:
            ctx.violation('numbering:anm:%s-reference' % kind, '%s used in %s compiles to %d, but the %s has %s %d' % (u, snm, got, kind, 'id' if kind == 'sprite' else 'position', want), replay); return
        ctx.count('names_checked')
    ctx.count('anm_layouts')
    if len(sprites) + len(snames) >= 2: ctx.fp('anm', text)
    ctx.sample({'format': 'anm:' + game, 'sprites': sprites, 'scripts_in_file_order': file_order}, cap=2)

def msg_case(ctx, r):
    game = r.pick(['th06', 'th08', 'th09', 'th11', 'th12', 'th17'])
    ns = r.randint(1, 5)
    names = ['m%d' % i for i in range(ns)]
    idxs = sorted(r.sample(range(0, 10), r.randint(1, 5)))
    table = {i: r.pick(names) for i in idxs}
    # reference every script at least once (an unreferenced script cannot be located in the binary)
    for nm in names:
        if nm not in table.values(): table[r.pick([i for i in range(10, 14) if i not in table])] = nm
    default = r.pick(names) if r.chance(0.6) else None
    tlen = max(table) + 1 + (r.randint(0, 3) if r.chance(0.3) else 0)
    unknown = r.chance(0.08)
    rows = ['%d: {script: "%s"}' % (i, nm) for i, nm in sorted(table.items())]
    if unknown and r.chance(0.5):
        # the unknown name sits in the `default` entry (used for gaps and padding, or not used at all: an error either way)
        default = 'nosuch'; ctx.count('msg_unknown_default_cases')
    elif unknown: rows.append('%d: {script: "nosuch"}' % (max(table) + 1)); tlen = max(tlen, max(table) + 2)
    if default: rows.append('default: {script: "%s"}' % default)
    text = 'meta { table: { %s }%s }\n' % (', '.join(rows), (', table_len: %d' % tlen) if (tlen != max(table) + 1 or r.chance(0.3)) and not unknown else '')
    order = list(names); r.shuffle(order)
    for k, nm in enumerate(order):
        text += 'script %s {\nins_90(%d);\n%s}\n' % (nm, 1000 + names.index(nm), 'ins_90(5);\n' * r.randint(0, 2))
    mp = ctx.write('c20.map', '!msgmap\n!ins_signatures\n90 S\n')
    src = ctx.write('c20.txt', text); out = os.path.join(ctx.dir, 'c20.bin')
    if os.path.exists(out): os.unlink(out)
    c = ctx.cli({'tool': 'msg', 'cmd': 'compile', 'game': game, 'in': src, 'out': out, 'maps': [mp]})
    ctx.evaluations += 1
    replay = {'text': text, 'game': game}
    if 'panic' in c or 'abort' in c: ctx.inconcl('compile crash (C04)'); return
    if unknown and default == 'nosuch' and all(i in table for i in range(tlen if 'table_len' in text else max(table) + 1)):
        # the unknown name is in a `default` entry that no table slot uses: nothing that refers to it is written; not judged
        ctx.count('msg_unknown_default_unused'); return
    if unknown:
        if c.get('ok'): ctx.violation('numbering:msg:unknown-name-accepted', 'table refers to a script that does not exist', replay)
        elif core.has_error_diag(c.get('diag', '')): ctx.count('expected_errors')
        return
    if not c.get('ok'):
        ctx.violation('numbering:msg:rejects-valid:%s' % core.norm_msg(core.headline(c.get('diag', '')))[:50], c.get('diag', '')[:300], replay); return
    m = L.parse_msg(ctx.read(out), game)
    exp_len = tlen if 'table_len' in text else max(table) + 1
    if len(m['table']) != exp_len:
        ctx.violation('numbering:msg:table-length', 'table has %d entries, expected %d' % (len(m['table']), exp_len), replay); return
    for i, (off, flags) in enumerate(m['table']):
        want = table.get(i, default)
        if want is None:
            if off != 0: ctx.violation('numbering:msg:missing-entry-not-zero', 'entry %d has offset %d, expected 0 (no default)' % (i, off), replay); return
            continue
        ins = m['scripts'].get(off)
        marker = int.from_bytes(ins[0].blob[:4], 'little', signed=True) if ins else None
        if marker != 1000 + names.index(want):
            ctx.violation('numbering:msg:table-offset', 'entry %d should point to script %s (marker %d); offset %d holds marker %s' % (i, want, 1000 + names.index(want), off, marker), replay); return
        ctx.count('names_checked')
    ctx.count('msg_layouts'); ctx.fp('msg', text)

def ecl_case(ctx, r):
    game = r.pick(['th06', 'th07', 'th08', 'th09', 'th095'])
    ns = r.randint(1, 5)
    names = ['zsub%d' % i for i in range(ns)]
    order = list(names); r.shuffle(order)
    text = ''
    uses = []
    unknown = r.chance(0.05)
    tl = []
    old_tl = game in ('th06', 'th07')
    for _ in range(r.randint(1, 5)):
        u = r.pick(names); uses.append(u)
        tl.append('ins_1(%s, 1.0, 2.0, 3.0);' % u if old_tl else 'ins_1(%s, 1.0, 2.0, 1, 2, 3);' % u)
    if unknown: tl.append('ins_1(nosuchsub, 1.0, 2.0, 3.0);' if old_tl else 'ins_1(nosuchsub, 1.0, 2.0, 1, 2, 3);')
    CALL = {'th06': ('ins_35(%s, 3, 1.0);', 35, 4), 'th07': ('ins_107(%s);', 107, 1), 'th08': ('ins_130(%s);', 130, 2), 'th09': ('ins_130(%s);', 130, 2), 'th095': ('ins_112(%s);', 112, 2)}[game]
    subuses = {}
    for nm in order:
        body = ['ins_900(%d);' % (2000 + names.index(nm))]
        subuses[nm] = []
        for _ in range(r.randint(0, 3)):
            u = r.pick(names); body.append(CALL[0] % u); subuses[nm].append(u)
        text += 'void %s() {\n%s\n}\n' % (nm, '\n'.join(body))
    text += 'script timeline0 {\n%s\n}\n' % '\n'.join(tl)
    mp = ctx.write('c20.map', '!eclmap\n!ins_signatures\n900 S\n')
    src = ctx.write('c20.txt', text); out = os.path.join(ctx.dir, 'c20.bin')
    if os.path.exists(out): os.unlink(out)
    c = ctx.cli({'tool': 'ecl', 'cmd': 'compile', 'game': game, 'in': src, 'out': out, 'maps': [mp]})
    ctx.evaluations += 1
    replay = {'text': text, 'game': game}
    if 'panic' in c or 'abort' in c: ctx.inconcl('compile crash (C04)'); return
    if unknown:
        if c.get('ok'): ctx.violation('numbering:ecl:unknown-name-accepted', 'timeline refers to a sub that does not exist', replay)
        elif core.has_error_diag(c.get('diag', '')): ctx.count('expected_errors')
        return
    if not c.get('ok'):
        ctx.count('ecl_rejected'); ctx.seen('ecl_reject_reasons', game + ':' + core.norm_msg(core.headline(c.get('diag', '')))[:60]); return
    p = L.parse_ecl06(ctx.read(out), game)
    markers = [int.from_bytes(s['instrs'][0].blob[:4], 'little', signed=True) for s in p['subs']]
    want_markers = [2000 + names.index(nm) for nm in order]
    if markers != want_markers:
        ctx.violation('numbering:ecl:sub-order', 'subs in file carry markers %s, source order gives %s' % (markers, want_markers), replay); return
    tins = p['timelines'][0]['instrs']
    for u, ins in zip(uses, tins):
        got = ins.extra if game in ('th06', 'th07') else int.from_bytes(ins.blob[:2], 'little', signed=True)
        want = order.index(u)
        if got != want:
            ctx.violation('numbering:ecl:sub-reference', '%s compiles to %s, the sub is at position %d' % (u, got, want), replay); return
        ctx.count('names_checked')
    for nm, sub in zip(order, p['subs']):
        calls = [i for i in sub['instrs'] if i.opcode == CALL[1]]
        if len(calls) != len(subuses[nm]):
            ctx.violation('numbering:ecl:call-count', 'sub %s: %d call instructions in file, %d in source' % (nm, len(calls), len(subuses[nm])), replay); return
        for u, ins in zip(subuses[nm], calls):
            got = int.from_bytes(ins.blob[:CALL[2]], 'little', signed=True); want = order.index(u)
            if got != want:
                ctx.violation('numbering:ecl:sub-reference-in-sub', '%s used in %s compiles to %s, the sub is at position %d' % (u, nm, got, want), replay); return
            ctx.count('names_checked')
    ctx.count('ecl_layouts'); ctx.fp('ecl', text)

def std_case(ctx, r):
    game = r.pick(['th06', 'th08', 'th10', 'th12', 'th17'])
    no = r.randint(1, 5)
    names = ['obj%s' % 'abcdef'[i] for i in range(no)]
    order = list(names); r.shuffle(order)
    objs = ', '.join('%s: {layer: %d, pos: [0.0,0.0,0.0], size: [1.0,1.0,1.0], quads: []}' % (nm, 10 + names.index(nm)) for nm in order)
    insts = [r.pick(names) for _ in range(r.randint(0, 6))]
    unknown = r.chance(0.05)
    itext = ', '.join('%s {pos: [%d.0, 0.0, 0.0]}' % (nm, k) for k, nm in enumerate(insts))
    if unknown: itext += (', ' if itext else '') + 'nosuchobj {pos: [0.0,0.0,0.0]}'
    new = game not in ('th06', 'th08')
    extra = 'anm_path: "a.anm"' if new else 'stage_name: "s", bgm: [{path:"a",name:"b"},{path:"a",name:"b"},{path:"a",name:"b"},{path:"a",name:"b"}]'
    text = 'meta { unknown: 0, %s, objects: {%s}, instances: [%s] }\nscript main { }\n' % (extra, objs, itext)
    src = ctx.write('c20.txt', text); out = os.path.join(ctx.dir, 'c20.bin')
    if os.path.exists(out): os.unlink(out)
    c = ctx.cli({'tool': 'std', 'cmd': 'compile', 'game': game, 'in': src, 'out': out})
    ctx.evaluations += 1
    replay = {'text': text, 'game': game}
    if 'panic' in c or 'abort' in c: ctx.inconcl('compile crash (C04)'); return
    if unknown:
        if c.get('ok'): ctx.violation('numbering:std:unknown-name-accepted', 'instance of an object that does not exist', replay)
        elif core.has_error_diag(c.get('diag', '')): ctx.count('expected_errors')
        return
    if not c.get('ok'):
        ctx.violation('numbering:std:rejects-valid:%s' % core.norm_msg(core.headline(c.get('diag', '')))[:50], c.get('diag', '')[:300], replay); return
    p = L.parse_std(ctx.read(out), game)
    layers = [o['layer'] for o in p['objects']]
    if layers != [10 + names.index(nm) for nm in order] or [o['id'] for o in p['objects']] != list(range(no)):
        ctx.violation('numbering:std:object-order', 'objects in file: layers %s ids %s; source order %s' % (layers, [o['id'] for o in p['objects']], order), replay); return
    for nm, inst in zip(insts, p['instances']):
        if inst['object'] != order.index(nm):
            ctx.violation('numbering:std:instance-object', 'instance of %s has object index %d, the object is at %d' % (nm, inst['object'], order.index(nm)), replay); return
        ctx.count('names_checked')
    ctx.count('std_layouts'); ctx.fp('std', text)

def run_shard(ctx):
    r = ctx.rng
    n = SIZES[ctx.tier] // ctx.nshards + 1
    for i in range(n):
        k = r.wpick([('anm', 4), ('msg', 3), ('ecl', 2), ('std', 2)])
        {'anm': anm_case, 'msg': msg_case, 'ecl': ecl_case, 'std': std_case}[k](ctx, r)

def replay(path):
    rec = json.load(open(path)); print(rec.get('text')); print({k: v for k, v in rec.items() if k != 'text'}); return 0
