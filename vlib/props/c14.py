"""C14 - difficulty labels and switches select exactly the stated difficulties."""
import json, os, re, struct, string
from .. import core, layout as L

META = {
    'level': 'exploration',
    'exhaustive': True,
    'rule': 'part 1 (exhaustive in the mask dimension): for each flag-definition set D (default digits, the shipped th06/th07/th08 sets, generated sets with renamed bits and default-on bits) and all 256 masks m: '
            'parse(label(m)) == m on the real DiffFlagDefs, the label is also parsed by an independent parser, and end to end: a PCB ECL file with 256 instructions carrying masks 0..255 (written by '
            'the harness) is decompiled with D, the printed labels are collected, the text is recompiled with D and the stored mask bytes are read back. '
            'part 2: statements with 1-3 difficulty switches of 2-8 cases with holes (and nested switches of equal length) under every kind of label are compiled for old ECL; per difficulty d the '
            'emitted copies (mask byte, argument values from the independent layout parser) must satisfy: exactly one copy has bit d iff the switch has a position for d and the label permits it, it '
            'carries case-values(d), default-on bits equal the label\'s setting. part 3 (decompile side): harness-written ECL files with runs of look-alike instructions whose masks form partitions, partitions with a gap, overlaps, incomplete covers, differing default-on bits, or that are separated by time labels, are decompiled with difficulty-switch recovery on and recompiled: every instruction must come back with its time, mask and argument. Flag sets may be defined in two layers (second mapfile redefines some flags with the other default; the later definition wins). distinct = hash(flag set) / hash(statement, label); non-trivial = set with >= 1 renamed bit / switch with a hole',
    'assumptions': ['mask enumeration is exhaustive per flag set; flag sets and switch statements are sampled'],
    'floors': {'recovery_roundtrips': 200, 'recovered_switches': 30, 'layered_flag_sets': 3, 'masks_checked': 256 * 6, 'flag_sets': 6, 'end_to_end_masks': 256 * 3, 'switch_statements': 150, 'switch_difficulties_checked': 1000},
}
SIZES = {'quick': 4000, 'thorough': 40000}
LANG = {'kind': 'test', 'language': 'ecl', 'int_regs': [], 'float_regs': [], 'game': 'th07'}

SHIPPED = {'th06': 'E-N-H-L-4-5-6-7-', 'th08': 'E-N-H-L-4+F+U+7+'}

def flagset_text(defs):
    """defs: list of (bit, char, on)"""
    return '!eclmap\n!difficulty_flags\n' + ''.join('%d %s%s\n' % (b, c, '+' if on else '-') for b, c, on in defs)

def gen_flagset(r):
    k = r.wpick([('default', 1), ('th06', 1), ('th08', 1), ('random', 5)])
    if k == 'default': return 'default-digits', [], dict((str(i), i) for i in range(8)), 0
    if k in SHIPPED:
        s = SHIPPED[k]; defs = [(i, s[2 * i], s[2 * i + 1] == '+') for i in range(8)]
    else:
        chars = r.sample(string.ascii_letters + string.digits, 8)
        defs = []
        for b in r.sample(range(8), r.randint(1, 8)):
            defs.append((b, chars[b], r.chance(0.3)))
    names = dict((str(i), i) for i in range(8))     # digit names always exist
    aux = 0
    for b, c, on in defs:
        names[c] = b
        if on: aux |= 1 << b
    return k + ':' + ''.join('%d%s%s' % (b, c, '+' if on else '-') for b, c, on in defs), defs, names, aux

def redefine(r, defs):
    """A second mapfile that defines some of the same flags again with the other default (the later definition wins)."""
    if not defs: return [], 0
    again = [(b, c, not on) for b, c, on in r.sample(defs, r.randint(1, len(defs)))]
    final = {b: on for b, c, on in defs}
    final.update({b: on for b, c, on in again})
    return again, sum(1 << b for b, on in final.items() if on)

def py_parse_label(label, names, aux):
    """Independent parser of a difficulty string WITHOUT '*' (DESIGN.md B.6)."""
    mask = aux; enable = True
    for ch in label:
        if ch == '+': enable = True
        elif ch == '-': enable = False
        elif ch == '*': return None
        else:
            if ch not in names: return 'unknown-' + ch
            if enable: mask |= 1 << names[ch]
            else: mask &= ~(1 << names[ch])
    return mask

def ecl07_with_masks(masks):
    """A PCB ECL file with one sub holding one `ins_0` per mask, written by the harness itself."""
    instrs = b''.join(struct.pack('<iHhBBH', 0, 0, 12, 0, m, 0) for m in masks) + struct.pack('<ihhHH', -1, -1, 12, 0xff00, 0x00ff)
    header_len = 4 + 16 * 4 + 4
    sub_off = header_len
    end = sub_off + len(instrs)
    tl = [end] + [0] * 15
    return struct.pack('<HH', 1, 0) + b''.join(struct.pack('<I', x) for x in tl) + struct.pack('<I', sub_off) + instrs

def part1(ctx, r):
    tag, defs, names, aux = gen_flagset(r)
    # duplicate names on two bits are a degenerate definition the docs do not cover: generated, but judged separately
    mf = flagset_text(defs) if defs else None
    mfs = [mf] if mf else []
    if defs and r.chance(0.35):
        again, aux = redefine(r, defs)
        mfs.append(flagset_text(again)); tag += ' then ' + ''.join('%d%s%s' % (b, c, '+' if on else '-') for b, c, on in again)
        ctx.count('layered_flag_sets')
    req = {'op': 'diff_labels', 'lang': LANG, 'mapfiles': mfs, 'labels': []}
    resp = ctx.call(req)
    ctx.evaluations += 1
    replay = {'req': req, 'flagset': tag}
    if 'panic' in resp:
        ctx.violation('diff:label-bijection:panic:' + core.panic_sig(resp['panic']), resp['panic']['msg'][:200], replay); return
    if resp.get('stage') != 'done':
        ctx.count('flagset_rejected'); return
    bad = None
    for row in resp['rows']:
        mask, label, back = row[0], row[1], row[2]
        ctx.count('masks_checked')
        if label is None or back != mask:
            bad = bad or (mask, label, back); continue
        pm = py_parse_label(label, names, aux)
        if pm is not None and pm != mask:
            ctx.violation('diff:label-bijection:label-means-other-mask', 'mask %#04x prints as %r, which by the documented rules means %r' % (mask, label, pm), replay); return
    if bad:
        ctx.violation('diff:label-bijection:parse-of-label-differs', 'flag set %s: mask %#04x -> label %r -> mask %r' % (tag, bad[0], bad[1], bad[2]), replay); return
    ctx.seen('flag_sets', tag)
    if defs: ctx.fp('set', tag)
    else: ctx.fp('set', 'default')
    # end to end through decompile + recompile
    if r.chance(0.5):
        data = ecl07_with_masks(list(range(256)))
        b = ctx.write('c14.ecl', data); t = os.path.join(ctx.dir, 'c14.txt'); o = os.path.join(ctx.dir, 'c14b.ecl')
        maps = [ctx.write('c14_%d.map' % k, m) for k, m in enumerate(mfs)]
        d = ctx.cli({'tool': 'ecl', 'cmd': 'decompile', 'game': 'th07', 'in': b, 'out': t, 'maps': maps, 'dopts': {'diff_switches': False}})
        if not d.get('ok'):
            ctx.violation('diff:end-to-end:decompile-fails', str(d.get('diag') or d.get('panic'))[:300], replay); return
        text = (ctx.read(t) or b'').decode()
        c = ctx.cli({'tool': 'ecl', 'cmd': 'compile', 'game': 'th07', 'in': t, 'out': o, 'maps': maps})
        if not c.get('ok'):
            ctx.violation('diff:end-to-end:recompile-fails:%s' % core.norm_msg(core.headline(c.get('diag', '')))[:50], str(c.get('diag') or c.get('panic'))[:300], dict(replay, decompiled=text[:2000])); return
        got = [i.diff for i in L.parse_ecl06(ctx.read(o), 'th07')['subs'][0]['instrs']]
        if got != list(range(256)):
            k = next(i for i in range(min(len(got), 256)) if got[i] != i) if len(got) == 256 else -1
            ctx.violation('diff:end-to-end:mask-changed', 'mask %s came back as %s (%d instructions)' % (k, got[k] if k >= 0 else None, len(got)), dict(replay, decompiled=text[:2000])); return
        ctx.count('end_to_end_masks', 256)

def case_values(cases, d):
    """value of a switch (list with None holes, nested lists allowed) at difficulty d"""
    j = d
    while cases[j] is None: j -= 1
    v = cases[j]
    return case_values(v, d) if isinstance(v, list) else v

def render_switch(cases):
    return '(' + ':'.join('' if c is None else (render_switch(c) if isinstance(c, list) else str(c)) for c in cases) + ')'

def part2(ctx, r):
    defs = [(i, 'ENHL4567'[i], False) for i in range(8)]
    aux = 0
    if r.chance(0.4):
        defs = [(i, 'ENHL4FU7'[i], i >= 4) for i in range(8)]; aux = 0xf0
    names = {c: b for b, c, _ in defs}; names.update({str(i): i for i in range(8)})
    ndiff = r.randint(2, 8)
    if aux: ndiff = min(ndiff, 4)
    nsw = r.randint(1, 3)
    switches = []
    for s in range(nsw):
        cases = [r.randint(0, 99)]
        for _ in range(ndiff - 1):
            cases.append(None if r.chance(0.3) else r.randint(0, 99))
        if r.chance(0.15):
            j = r.randrange(ndiff)
            if cases[j] is not None: cases[j] = [r.randint(100, 199)] + [None if r.chance(0.3) else r.randint(100, 199) for _ in range(ndiff - 1)]
        switches.append(cases)
    # label
    lk = r.wpick([('none', 3), ('some', 4), ('star', 1), ('minus', 1.5)])
    chars = [c for b, c, on in defs if not on][:max(ndiff, 4)]
    if lk == 'none': label = None
    elif lk == 'some': label = ''.join(r.sample(chars, r.randint(1, len(chars))))
    elif lk == 'star': label = '*'
    else: label = '*-' + ''.join(r.sample([c for b, c, on in defs if on] or chars, 1)) if aux else ''.join(r.sample(chars, 1))
    sig = 'S' * nsw
    stmt = 'ins_900(%s);' % ', '.join(render_switch(c) for c in switches)
    if label is not None: stmt = '{"%s"}: %s' % (label, stmt)
    # an enclosing labelled block: the statement's own label (if it has one) replaces the block's, otherwise the block's applies
    outer = None
    if r.chance(0.3):
        outer = r.pick(['*', ''.join(r.sample(chars, r.randint(1, len(chars))))])
        stmt = '{"%s"}: {\n%s\n}' % (outer, stmt)
        if label is None: label = outer
        ctx.count('nested_label_cases')
    text = 'script timeline0 {}\nvoid sub0() {\n%s\n}\n' % stmt
    mp = ctx.write('c14.map', flagset_text(defs) + '!ins_signatures\n900 %s\n' % sig)
    src = ctx.write('c14.txt', text); out = os.path.join(ctx.dir, 'c14.bin')
    if os.path.exists(out): os.unlink(out)
    c = ctx.cli({'tool': 'ecl', 'cmd': 'compile', 'game': 'th07', 'in': src, 'out': out, 'maps': [mp]})
    ctx.evaluations += 1
    replay = {'text': text, 'mapfile': flagset_text(defs), 'label': label, 'outer_label': outer, 'switches': switches}
    if 'panic' in c or 'abort' in c: ctx.inconcl('compile crash (C04)'); return
    if not c.get('ok'):
        ctx.violation('diff:expansion:rejects-valid:%s' % core.norm_msg(core.headline(c.get('diag', '')))[:50], c.get('diag', '')[:300], replay); return
    ins = [i for i in L.parse_ecl06(ctx.read(out), 'th07')['subs'][0]['instrs'] if i.opcode == 900]
    # what the label permits (independent parser; '*' = every difficulty bit)
    if label is None: lmask = 0xff
    elif label.startswith('*'):
        lmask = 0xff
        rest = label[1:]
        en = True
        for ch in rest:
            if ch == '-': en = False
            elif ch == '+': en = True
            else:
                if en: lmask |= 1 << names[ch]
                else: lmask &= ~(1 << names[ch])
    else: lmask = py_parse_label(label, names, aux)
    diffbits = 0xff & ~aux
    for d in range(8):
        if not (diffbits >> d) & 1: continue
        copies = [i for i in ins if (i.diff >> d) & 1]
        should = d < ndiff and (lmask >> d) & 1
        ctx.count('switch_difficulties_checked')
        if should:
            if len(copies) != 1:
                ctx.violation('diff:expansion:%s' % ('no-copy' if not copies else 'several-copies'), 'difficulty %d: %d copies apply (label %r, %d cases): masks %s' % (d, len(copies), label, ndiff, [hex(i.diff) for i in ins]), replay); return
            want = [case_values(sw, d) for sw in switches]
            got = [int.from_bytes(copies[0].blob[4 * k:4 * k + 4], 'little', signed=True) for k in range(nsw)]
            if got != want:
                ctx.violation('diff:expansion:wrong-case-values%s' % (':nested' if any(isinstance(x, list) for sw in switches for x in sw) else ''), 'difficulty %d: instruction carries %s, the switch says %s' % (d, got, want), replay); return
        elif copies:
            ctx.violation('diff:expansion:copy-for-excluded-difficulty', 'difficulty %d is %s but %d copies apply' % (d, 'beyond the switch' if d >= ndiff else 'excluded by the label', len(copies)), replay); return
    for i in ins:
        if (i.diff & aux) != (lmask & aux):
            ctx.violation('diff:expansion:aux-bits-changed', 'copy has mask %#04x, label sets default-on bits to %#04x' % (i.diff, lmask & aux), replay); return
    ctx.count('switch_statements')
    if any(x is None for sw in switches for x in sw): ctx.fp(stmt)
    ctx.sample({'statement': stmt, 'copies': [(hex(i.diff), i.blob.hex()) for i in ins]}, cap=3)

def ecl07_with_instrs(instrs):
    """PCB ECL file, one sub; instrs: [(time, mask, arg)] all `ins_900(arg)`; written by the harness itself."""
    body = b''.join(struct.pack('<iHhBBHi', t, 900, 16, 0, m, 0, a) for t, m, a in instrs) + struct.pack('<ihhHH', -1, -1, 12, 0xff00, 0x00ff)
    sub_off = 4 + 16 * 4 + 4
    tl = [sub_off + len(body)] + [0] * 15
    return struct.pack('<HH', 1, 0) + b''.join(struct.pack('<I', x) for x in tl) + struct.pack('<I', sub_off) + body

def part3(ctx, r):
    """Decompile side: runs of look-alike instructions with arbitrary mask families (what difficulty switches compile to, and near misses)
    must come back with exactly their masks, times and arguments after decompile (difficulty-switch recovery on) + recompile."""
    defs = [(i, 'ENHL4567'[i], False) for i in range(8)]
    if r.chance(0.4): defs = [(i, 'ENHL4FU7'[i], i >= 4) for i in range(8)]
    aux = sum(1 << b for b, c, on in defs if on)
    instrs = []; t = 0; a = 0; kinds = []
    for _ in range(r.randint(1, 3)):
        k = r.wpick([('partition', 3), ('hole', 2.5), ('overlap', 1), ('incomplete', 1.5), ('aux-differs', 1.5 if aux else 0.5), ('time-inside', 2), ('beyond-lunatic', 1), ('single', 0.7)])
        kinds.append(k)
        nd = r.randint(4, 8) if k == 'beyond-lunatic' and not aux else 4
        cuts = sorted(r.sample(range(1, nd), r.randint(1, min(3, nd - 1))))
        groups, prev = [], 0
        for c in cuts + [nd]: groups.append(list(range(prev, c))); prev = c
        if k == 'hole' and len(groups) >= 2:
            # one bit migrates to a non-adjacent group, e.g. {0,1} {2,4}: a mask with a gap
            gi = r.randrange(len(groups)); spare = [b for b in range(8) if b not in sum(groups, []) and not (aux >> b) & 1]
            if spare and r.chance(0.5): groups[gi] = groups[gi] + [r.pick(spare)]
            elif len(groups) >= 3 and len(groups[0]) >= 1: groups[-1] = groups[-1] + [groups[0].pop(0)]; groups = [g for g in groups if g]
        if k == 'overlap' and len(groups) >= 2: groups[1] = groups[1] + [groups[0][-1]]
        if k == 'incomplete': groups = groups[:-1] if r.chance(0.5) else groups[1:]
        if k == 'single': groups = [groups[0]]
        if not groups: continue
        for gi, g in enumerate(groups):
            m = sum(1 << b for b in g) | aux
            if k == 'aux-differs' and gi == len(groups) - 1: m ^= 1 << r.pick([4, 5, 6, 7])
            if k == 'time-inside' and gi >= 1 and r.chance(0.6): t += r.randint(1, 9)
            a += 1
            instrs.append((t, m, a if r.chance(0.85) else instrs[-1][2] if instrs else a))
        if r.chance(0.5): t += r.randint(0, 5)
        if r.chance(0.4): a += 1; instrs.append((t, 0xff, a))          # an ordinary instruction between runs
    data = ecl07_with_instrs(instrs)
    mp = ctx.write('c14.map', flagset_text(defs) + '!ins_signatures\n900 S\n')
    b = ctx.write('c14r.ecl', data); tx = os.path.join(ctx.dir, 'c14r.txt'); o = os.path.join(ctx.dir, 'c14r2.ecl')
    if os.path.exists(o): os.unlink(o)
    d = ctx.cli({'tool': 'ecl', 'cmd': 'decompile', 'game': 'th07', 'in': b, 'out': tx, 'maps': [mp], 'dopts': {} if r.chance(0.8) else {'blocks': False}})
    ctx.evaluations += 1
    replay = {'instrs (time, mask, arg)': instrs, 'mapfile': flagset_text(defs), 'kinds': kinds}
    if 'panic' in d or 'abort' in d: ctx.inconcl('decompile crash (C16)'); return
    if not d.get('ok'):
        ctx.violation('diff:recovery:decompile-fails', str(d.get('diag'))[:300], replay); return
    text = (ctx.read(tx) or b'').decode(); replay['decompiled'] = text[:2500]
    c = ctx.cli({'tool': 'ecl', 'cmd': 'compile', 'game': 'th07', 'in': tx, 'out': o, 'maps': [mp]})
    if 'panic' in c or 'abort' in c: ctx.inconcl('compile crash (C04)'); return
    if not c.get('ok'):
        ctx.violation('diff:recovery:recompile-fails:%s' % core.norm_msg(core.headline(c.get('diag', '')))[:50], c.get('diag', '')[:300], replay); return
    got = [(i.time, i.diff, int.from_bytes(i.blob[:4], 'little', signed=True)) for i in L.parse_ecl06(ctx.read(o), 'th07')['subs'][0]['instrs']]
    if got != instrs:
        k = next((j for j in range(min(len(got), len(instrs))) if got[j] != instrs[j]), min(len(got), len(instrs)))
        ctx.violation('diff:recovery:%s' % ('instruction-count' if len(got) != len(instrs) else ('mask-changed' if got[k][1] != instrs[k][1] else ('time-changed' if got[k][0] != instrs[k][0] else 'argument-changed'))),
                      'instruction %d was (time, mask, arg) = %s and comes back as %s' % (k, instrs[k] if k < len(instrs) else None, got[k] if k < len(got) else None), replay); return
    ctx.count('recovery_roundtrips'); ctx.count('recovery_instructions', len(instrs))
    if ':' in text.split('void', 1)[-1] and '(' in text: pass
    if any(('(' in ln and ':' in ln.split('(', 1)[1]) for ln in text.splitlines() if 'ins_900' in ln): ctx.count('recovered_switches')
    for k in kinds: ctx.seen('recovery_mask_families', k)
    ctx.fp('rec', tuple(instrs))

def run_shard(ctx):
    r = ctx.rng
    n = SIZES[ctx.tier] // ctx.nshards + 1
    for i in range(n):
        k = r.random()
        if k < 0.25: part1(ctx, r)
        elif k < 0.5: part3(ctx, r)
        else: part2(ctx, r)

def replay(path):
    rec = json.load(open(path)); print(json.dumps(rec, indent=1)[:3000]); return 0
