"""C01 - decompile then recompile reproduces the binary bit-for-bit."""
import json, os, shutil, itertools, struct, re
from .. import core, formats, corpus

META = {
    'level': 'exploration',
    'rule': 'B ranges over the 30 bundled binaries and binaries that truth just compiled from generated sources (ANM v0-v8, STD, MSG, END, mission, old ECL + timelines; all games); '
            'per B: option subsets of {no-blocks,no-intrinsics,no-arguments,no-diff-switches,no-calls} (all 32 on bundled files, >= 8 sampled elsewhere) x widths x optional extra alias mapfile; '
            'decompile -> text -> compile (ANM with -i B) -> bytes must equal B unless decompile printed a loss warning; distinct = hash(B, options, width, mapfile?); non-trivial = B has >= 4 instructions or a jump',
    'assumptions': ['"loss warning" = any warning printed by decompile other than the notice that unknown signatures were decompiled to byte blobs'],
    'floors': {'roundtrips_identical': 200, 'option_sets_seen': 8, 'formats_seen': 5},
}
SIZES = {'quick': 7200, 'thorough': 60000}
OPTS = ['blocks', 'intrinsics', 'arguments', 'diff_switches', 'calls']
WIDTHS_Q = [1, 2, 20, 40, 79, 80, 81, 100, 200]

def alias_mapfile(rng, entry, tables):
    """A user mapfile that gives fresh names to opcodes and registers of the language (names must be transparent)."""
    tool = entry['tool']
    if entry.get('msg_mode') == 'mission': return None
    lang = {'anm': 'anm', 'std': 'std', 'msg': 'end' if entry.get('msg_mode') == 'ending' else 'msg', 'ecl': 'ecl'}[tool]
    magic = {'anm': '!anmmap', 'std': '!stdmap', 'msg': '!msgmap', 'ecl': '!eclmap'}[tool]
    t = tables.get(entry['game'], lang)
    ops = sorted(t['sigs'])
    regs = sorted(t['gvar_types'])
    L = [magic, '!ins_names']
    for op in ops:
        if rng.chance(0.6): L.append('%d zz_op_%d_%s' % (op, op, rng.pick(['a', 'b', 'q'])))
    if regs:
        L.append('!gvar_names')
        for g in regs:
            if rng.chance(0.6): L.append('%d ZZ_R%s' % (g, str(g).replace('-', 'm')))
    return '\n'.join(L) + '\n'

def enum_mapfile(rng, entry, tables):
    """A user mapfile that re-declares plain int parameters of existing signatures as enum-typed and defines the enums (values
    print as names, unknown values as numbers; shared constant names force qualified printing), plus, for ECL, its own names
    for the difficulty flags.  All of it is naming only: the same mapfile is given to decompile and compile."""
    tool = entry['tool']
    if entry.get('msg_mode') == 'mission': return None
    lang = {'anm': 'anm', 'std': 'std', 'msg': 'end' if entry.get('msg_mode') == 'ending' else 'msg', 'ecl': 'ecl'}[tool]
    magic = {'anm': '!anmmap', 'std': '!stdmap', 'msg': '!endmap' if entry.get('msg_mode') == 'ending' else '!msgmap', 'ecl': '!eclmap'}[tool]
    t = tables.get(entry['game'], lang)
    cands = [op for op, ps in sorted(t['sigs'].items()) if op not in t['intrinsics'] and any(p.ch == 'S' and not p.attrs for p in ps)]
    if not cands: return None
    names = ['ZzA', 'ZzB', 'ZzC'][:rng.randint(1, 3)]
    L = [magic]
    pool = ['zero', 'one', 'two', 'left', 'right', 'up', 'down', 'big', 'neg']
    for en in names:
        L.append('!enum(name="%s")' % en)
        vals = rng.sample([-1, 0, 1, 2, 3, 4, 5, 7, 10, 16, 100, 255, 1000, -2], rng.randint(1, 6))
        used = set()
        for v in vals:
            nm = rng.pick(pool) if rng.chance(0.5) else '%s_%s' % (en.lower(), rng.pick(pool))
            if nm in used: continue
            used.add(nm); L.append('%d %s' % (v, nm))
    L.append('!ins_signatures')
    for op in rng.sample(cands, min(len(cands), rng.randint(1, 10))):
        ps = t['sigs'][op]
        idx = rng.pick([i for i, p in enumerate(ps) if p.ch == 'S' and not p.attrs])
        L.append('%d %s' % (op, ''.join(('S(enum="%s")' % rng.pick(names)) if i == idx else p.text() for i, p in enumerate(ps))))
    if tool == 'ecl' and rng.chance(0.5):
        L.append('!difficulty_flags')
        letters = rng.sample('ABCDGJKMPQ', 8)
        on = [b for b in range(4, 8) if rng.chance(0.5)]
        for b in range(8): L.append('%d %s%s' % (b, letters[b], '+' if b in on else '-'))
    return '\n'.join(L) + '\n'

def nontrivial(entry):
    d = entry['data']
    return len(d) > 120

def roundtrip(ctx, entry, dopts, width, mapfile, tables):
    tool, game, mm = entry['tool'], entry['game'], entry.get('msg_mode')
    b_path = ctx.write('orig.bin', entry['data'])
    t_path = os.path.join(ctx.dir, 'decomp.txt')
    o_path = os.path.join(ctx.dir, 'recomp.bin')
    for p in (t_path, o_path):
        if os.path.exists(p): os.unlink(p)
    maps = [ctx.write('alias.map', mapfile)] if mapfile else []
    dj = {'tool': tool, 'cmd': 'decompile', 'game': game, 'in': b_path, 'out': t_path, 'dopts': dopts, 'width': width, 'maps': maps}
    if mm: dj['msg_mode'] = mm
    d = ctx.cli(dj)
    replay = {'entry': {k: entry.get(k) for k in ('name', 'tool', 'game', 'msg_mode', 'origin')}, 'data_hex': entry['data'].hex(), 'dopts': dopts, 'width': width,
              'mapfile': mapfile, 'source_text': entry.get('text')}
    tag = entry.get('sigtag') or '%s%s' % (tool, '-' + mm if mm else '')
    ctx.evaluations += 1
    if 'panic' in d or 'abort' in d:
        ctx.count('decompile_crashes (reported by C16)'); ctx.inconcl('decompile crashed (C16 reports it)'); return
    if not d.get('ok'):
        if entry['origin'] == 'compiled':
            ctx.violation('roundtrip:%s:decompile-error:%s' % (tag, core.norm_msg(core.headline(d.get('diag', '')))[:90]), d.get('diag', '')[:400], replay)
        else:
            ctx.count('bundled_decompile_errors')
        return
    loss = [w for w in core.warnings_of(d.get('diag', '')) if 'were decompiled to byte blobs' not in w]
    text = ctx.read(t_path)
    cj = {'tool': tool, 'cmd': 'compile', 'game': game, 'in': t_path, 'out': o_path, 'maps': maps}
    if mm: cj['msg_mode'] = mm
    if tool == 'anm': cj['images'] = [b_path]
    c = ctx.cli(cj)
    replay['decompiled'] = (text or b'').decode('utf-8', 'replace')[:6000]
    if loss:
        ctx.count('exempt_loss_warning'); ctx.seen('loss_warnings', core.norm_msg(loss[0])[:80])
        if entry['origin'] == 'compiled' and not entry.get('compile_diag', '').strip(): ctx.count('exempt_on_warning_free_compiled_source')
        return
    if 'panic' in c or 'abort' in c:
        p = c.get('panic') or {}
        ctx.violation('roundtrip:%s:recompile-crash:%s' % (tag, core.panic_sig(p) if p else c.get('abort')), str(p.get('msg') or c.get('abort'))[:300], replay); return
    if not c.get('ok'):
        ctx.violation('roundtrip:%s:recompile-error:%s' % (tag, core.norm_msg(core.headline(c.get('diag', '')))[:90]), c.get('diag', '')[:500], replay); return
    b2 = ctx.read(o_path)
    if b2 != entry['data']:
        where = next((i for i in range(min(len(b2), len(entry['data']))) if b2[i] != entry['data'][i]), min(len(b2), len(entry['data'])))
        ctx.violation('roundtrip:%s:bytes-differ:%s' % (tag, 'mask-or-blob' if entry.get('sigtag') else classify_diff(entry, b2, where, replay['decompiled'])), 'first difference at byte %d (len %d vs %d)' % (where, len(entry['data']), len(b2)), replay); return
    ctx.count('roundtrips_identical')
    ctx.seen('option_sets_seen', ''.join('1' if dopts.get(k, True) else '0' for k in OPTS))
    ctx.seen('formats_seen', tag); ctx.seen('games_seen', tag + ':' + game); ctx.seen('widths_seen', width)
    if mapfile: ctx.count('with_enum_mapfile' if '!enum' in mapfile else 'with_alias_mapfile')
    if nontrivial(entry): ctx.fp(hash(entry['data']), tuple(sorted(dopts.items())), width, bool(mapfile))
    ctx.sample({'origin': entry['name'], 'tool': tag, 'game': game, 'options': dopts, 'width': width, 'decompiled': replay['decompiled'][:500]}, cap=2)

import re
CONST_OP_RE = re.compile(r'(=|\() *-?\d[\d.]*f? *(\+|-|\*|/|%|==|!=|<=|>=|<|>|&|\||\^|<<|>>|>>>|&&|\|\|) *-?\d[\d.]*f? *(;|\))|= *(sin|cos|sqrt|tan|-|~|!)\(?-?\d[\d.]*\)?;')

def structural_diff(entry, b2):
    """First differing structural field according to the independent layout parsers."""
    from .. import layout as L
    tool, game, mm = entry['tool'], entry['game'], entry.get('msg_mode')
    try:
        if tool == 'anm':
            A, B = L.parse_anm(entry['data'], game), L.parse_anm(b2, game)
            if len(A) != len(B): return 'entry-count'
            for ea, eb in zip(A, B):
                if ea['header'] != eb['header']:
                    k = [k for k in ea['header'] if ea['header'][k] != eb['header'].get(k)]
                    if any(x not in ('name_offset', 'thtx_offset', 'next_offset', 'name2_offset') for x in k): return 'header:' + k[0]
                if ea['sprites'] != eb['sprites']: return 'sprites'
                if [s['id'] for s in ea['scripts']] != [s['id'] for s in eb['scripts']]: return 'script-ids'
                for sa, sb in zip(ea['scripts'], eb['scripts']):
                    t = instr_diff(sa['instrs'], sb['instrs'])
                    if t: return t
                if (ea['thtx'] or {}) != (eb['thtx'] or {}): return 'texture'
            return 'layout'
        if tool == 'ecl':
            A, B = L.parse_ecl06(entry['data'], game), L.parse_ecl06(b2, game)
            if len(A['subs']) != len(B['subs']) or len(A['timelines']) != len(B['timelines']): return 'sub-count'
            for sa, sb in zip(A['subs'] + A['timelines'], B['subs'] + B['timelines']):
                t = instr_diff(sa['instrs'], sb['instrs'])
                if t: return t
            return 'layout'
        if tool == 'std':
            A, B = L.parse_std(entry['data'], game), L.parse_std(b2, game)
            t = instr_diff(A['script'], B['script'])
            if t: return t
            for k in A:
                if k != 'script' and A[k] != B.get(k): return 'meta:' + k
            return 'layout'
        if tool == 'msg' and mm != 'mission':
            A, B = L.parse_msg(entry['data'], game), L.parse_msg(b2, game)
            if len(A['table']) != len(B['table']): return 'table-len'
            if [f for _, f in A['table']] != [f for _, f in B['table']]: return 'table-flags'
            if len(A['scripts']) != len(B['scripts']): return 'script-count'
            for (oa, ia), (ob, ib) in zip(sorted(A['scripts'].items()), sorted(B['scripts'].items())):
                t = instr_diff(ia, ib)
                if t: return t
            return 'layout'
    except Exception as e:
        return 'unparsable:' + type(e).__name__
    return 'bytes'

def instr_diff(a, b):
    if len(a) != len(b): return 'instr-count'
    for x, y in zip(a, b):
        for f in ('opcode', 'time', 'mask', 'diff', 'extra', 'blob'):
            if getattr(x, f) != getattr(y, f): return 'instr-' + f
    return None

def classify_diff(entry, b2, where, decompiled=''):
    tag = structural_diff(entry, b2)
    if tag in ('instr-opcode', 'instr-blob', 'instr-count', 'instr-mask') and CONST_OP_RE.search(decompiled):
        # the compiler emitted an operation on two literals (e.g. out of a difficulty switch or a constant condition);
        # recompiling the decompiled text folds it
        return 'const-refold'
    src = entry.get('text') or ''
    if entry['tool'] == 'msg' and src and src.count('script script') > decompiled.count('script script'):
        return 'unreferenced-script-dropped'
    return tag

def masked_blob_entry(ctx, r):
    """A file whose instructions carry parameter-mask bits on parameters that can only ever be immediates (`s(imm)`, script ids,
    bits past the last parameter): `ins_N(@mask=M, @blob="..")` is something a compile command emits, so it is in the quantifier."""
    from . import c03
    lg = r.pick([l for l in c03.INSTR_LANGS if l['mask_bits']]); game = r.pick(lg['games'])
    sig = r.pick(['S(imm)S', 's(imm)--S', 'SS(imm)', 'S(imm)', 'SSS', 'f(imm)S', 'Sf(imm)', 'S(imm)S(imm)'] + (['NS', 'SN'] if lg['tool'] == 'anm' else []))
    npar = len(sig.replace('(imm)', '').replace('-', ''))
    lines = []; cls = set()
    kinds = re.findall(r'[A-Za-z](?:\(imm\))?', sig.replace('-', ''))
    for _ in range(r.randint(1, 4)):
        m = r.pick([0, 1, 2, 3, 1 << npar, (1 << npar) - 1, r.randint(0, 7), r.randint(0, 65535)])
        blob = b''.join(struct.pack('<i', r.pick([0, 0x3f800000, 0x40a00000] if k[0] == 'f' else [0, 1, 5, 7, 10000, -1])) for k in kinds)   # (no NaN payloads: that loss is a separate, recorded finding)
        lines.append('ins_900(@mask=%d, @blob="%s");' % (m, blob.hex()))
        if m >> npar: cls.add('bit-past-last-param')
        if any((m >> i) & 1 and ('imm' in k or k == 'N') for i, k in enumerate(kinds)): cls.add('bit-on-immediate-only-param')
    cls = '+'.join(sorted(cls)) or 'plain'
    mapfile = '%s\n!ins_signatures\n900 %s\n' % (lg['maphdr'].split('\n')[0], sig)
    text = lg['wrap'](game, '\n'.join(lines))
    src = ctx.write('mb.txt', text); out = os.path.join(ctx.dir, 'mb.bin')
    if os.path.exists(out): os.unlink(out)
    c = ctx.cli({'tool': lg['tool'], 'cmd': 'compile', 'game': game, 'in': src, 'out': out, 'maps': [ctx.write('mb.map', mapfile)]})
    if not c.get('ok') or 'panic' in c or 'abort' in c: ctx.count('masked_blob_not_compiled'); return None, None
    data = ctx.read(out)
    if data is None: return None, None
    ctx.count('masked_blob_files'); ctx.seen('masked_blob_sigs', '%s %s' % (lg['key'], sig))
    return {'tool': lg['tool'], 'game': game, 'data': data, 'origin': 'compiled', 'name': 'masked-blob:%s:%s:%s' % (cls, lg['key'], sig), 'sigtag': 'masked-blob:%s:%s' % (cls, lg['key']), 'text': text, 'compile_diag': c.get('diag', '')}, mapfile

def run_shard(ctx):
    r = ctx.rng
    tables = formats.SigTables(ctx)
    n = SIZES[ctx.tier] // ctx.nshards + 1
    all32 = [dict((k, bool((m >> i) & 1)) for i, k in enumerate(OPTS)) for m in range(32)]
    # bundled files: every option subset (partitioned over shards)
    jobs = []
    for bi, e in enumerate(corpus.bundled()):
        for oi, o in enumerate(all32):
            if (bi * 32 + oi) % ctx.nshards == ctx.shard:
                jobs.append((e, {k: v for k, v in o.items() if not v}, 80, None))
    for (e, o, w, m) in jobs: roundtrip(ctx, e, o, w, m, tables)
    done = len(jobs)
    widths = WIDTHS_Q if ctx.tier == 'quick' else WIDTHS_Q + [3, 8, 99]
    while done < n:
        for _ in range(6):
            e, m = masked_blob_entry(ctx, r)
            if e: roundtrip(ctx, e, {kk: False for kk in OPTS if r.chance(0.3)}, r.pick(widths), m, tables); done += 1
        for e in corpus.compile_generated(ctx, tables, 8, want_text=True):
            k = 4 if ctx.tier == 'quick' else 10
            for _ in range(k):
                o = {kk: False for kk in OPTS if r.chance(0.3)}
                w = r.pick(widths) if r.chance(0.8) else r.randint(1, 200)
                m = alias_mapfile(r, e, tables) if r.chance(0.25) else (enum_mapfile(r, e, tables) if r.chance(0.2) else None)
                roundtrip(ctx, e, o, w, m, tables); done += 1

def replay(path):
    rec = json.load(open(path))
    import tempfile
    d = tempfile.mkdtemp(prefix='replay-')
    try:
        e = rec['entry']
        b = os.path.join(d, 'orig.bin'); open(b, 'wb').write(bytes.fromhex(rec['data_hex']))
        maps = []
        if rec.get('mapfile'):
            open(os.path.join(d, 'alias.map'), 'w').write(rec['mapfile']); maps = [os.path.join(d, 'alias.map')]
        dj = {'tool': e['tool'], 'cmd': 'decompile', 'game': e['game'], 'in': b, 'out': os.path.join(d, 't.txt'), 'dopts': rec['dopts'], 'width': rec['width'], 'maps': maps}
        if e.get('msg_mode'): dj['msg_mode'] = e['msg_mode']
        rc, out, err = core.run_vtruth(core.job_argv(dj)); print(' '.join(core.job_argv(dj)), '->', rc); print(err[-1500:])
        cj = {'tool': e['tool'], 'cmd': 'compile', 'game': e['game'], 'in': os.path.join(d, 't.txt'), 'out': os.path.join(d, 'o.bin'), 'maps': maps}
        if e.get('msg_mode'): cj['msg_mode'] = e['msg_mode']
        if e['tool'] == 'anm': cj['images'] = [b]
        rc2, out, err = core.run_vtruth(core.job_argv(cj)); print(' '.join(core.job_argv(cj)), '->', rc2); print(err[-1500:])
        same = rc == 0 and rc2 == 0 and open(os.path.join(d, 'o.bin'), 'rb').read() == bytes.fromhex(rec['data_hex'])
        print('identical' if same else 'DIFFERENT')
        if not same: print('VIOLATION property=C01 replay=%s' % path)
        return 0 if same else 1
    finally:
        shutil.rmtree(d, ignore_errors=True)
