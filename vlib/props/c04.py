"""C04 - any text input ends in success or a rendered diagnostic, never a crash."""
import json, os
from .. import core, formats, mutate, crash

META = {
    'level': 'exploration',
    'rule': 'per (tool, game, input bytes): grammar-generated well-formed files for truanm/trustd/trumsg(stage, ending, mission)/truecl x games; token- and byte-level '
            'mutants; extreme literals / reserved syntax / deep nesting (<= 256) from a fixed hostile list; generated and mutated mapfile texts; committed corpus. '
            'Observed: worker death, panic site, CPU time, peak allocation, Result vs diagnostics. distinct = hash(input bytes, tool, game); non-trivial = input has >= 20 bytes',
    'assumptions': ['the in-process pipeline wrappers are the CLI pipelines (a sample is re-executed through the real vtruth process and compared)',
                    '"loops forever" is restated as > 20 CPU-seconds for one input'],
    'floors': {'generated_valid_accepted': 20, 'mutants': 100, 'hostile': 20, 'mapfile_cases': 20, 'typed_matrix': 200, 'intrinsic_abi_cells': 500},
    'profiles': {'quick': ('dev',), 'thorough': ('dev', 'release')},
}
SIZES = {'quick': 17000, 'thorough': 150000}

MINI = {
    'anm': ('''entry { path: "a.png", has_data: false, img_width: 64, img_height: 64, img_format: 3, sprites: {sprite0: {id: 0, x: 0.0, y: 0.0, w: 1.0, h: 1.0}} }
script script0 {
%s
}
''', 'th12'),
    'ecl': ('''script timeline0 {}
void sub0() {
%s
}
''', 'th07'),
    'std': ('''meta { unknown: 0, anm_path: "a.anm", objects: {}, instances: [] }
script main {
%s
}
''', 'th12'),
    'msg': ('''meta { table: { 0: {script: "script0"} } }
script script0 {
%s
}
''', 'th08'),
}

def nest(open_, close, n, core_='0'): return open_ * n + core_ + close * n

def hostile_bodies():
    """Statement texts (to be placed in a script body): extreme literals, reserved syntax, deep nesting."""
    B = []
    for lit in ['2147483647', '2147483648', '4294967295', '4294967296', '99999999999999999999999999999999999999999', '0x100000000', '0b' + '1' * 40, '-2147483648', '-2147483649']:
        B.append('I0 = %s;' % lit); B.append('ins_3(%s);' % lit); B.append('%s:' % lit); B.append('+%s:' % lit); B.append('times(%s) { nop(); }' % lit)
    for lit in ['1e40', '340282350000000000000000000000000000000.0', '99999999999999999999999999999999999999999999.0', '0.000000000000000000000000000000000000000000001', 'rad(1.0)', 'rad(99999999999999999999999999999999999999999.0)', '1.f', '1.0F', 'NAN', 'INF', '-INF', 'PI']:
        B.append('F0 = %s;' % lit); B.append('F0 = F0 + %s;' % lit); B.append('ins_7(%s);' % lit)
    for e in ['1 / 0', '1 % 0', '1.0 / 0.0', '0.0 % 0.0', '-2147483648 / -1', '-2147483648 % -1', '1 << 32', '1 << -1', '1 >> 99', '1 >>> 33', '2147483647 + 1', '-(-2147483648)', '~0', '!0', '! 6',
              '(1:2:3:4:5:6:7:8:9)', '(1:)', '(:1)', '(1::::::::::)', '1 ? 2 : 3 ? 4 : 5', 'sin(1)', 'sqrt(-1.0)', '_S(1.5)', '_f(2)', 'int(2.5)', 'float(3)', '$(1.5)', '%(2)',
              'I0++', '++I0', 'I0--', '--I0', 'offsetof(x)', 'timeof(x)', 'foo.bar', 'bool.true', 'I0[3]', '"str"', '"a" + "b"', '-"a"', 'REG[10000]', 'REG[-1]', 'REG[99999999999]', '$REG[1]', '%I0', '$F0']:
        B.append('I0 = %s;' % e); B.append('if (%s) { nop(); }' % e); B.append('ins_3(%s);' % e); B.append('const int K = %s; I0 = K;' % e)
    B += ['I0 = _S(-10:);', 'I0 = $(1.5:);', 'F0 = _f(3:4);', 'F0 = %(3:);', 'I0 = int(1.5:2.5:);', 'I0 = -(1:2);', 'I0 = ~(1:);', 'F0 = sin(1.0:);', 'I0 = (1:);', 'I0 = ((1:):);', 'I0 += _S(1.5:);',
          '@foo(1);', 'foo(1) async;', 'foo(1) async 3;', '@foo(1) async;', 'return;', 'return 1;', 'return I0 + 1;', 'int f(int x) { return x; }', 'int f(int x);', 'void g() {}', 'inline void h() { nop(); }',
          'const int f() { return 1; }', 'const inline void q() {}', 'var x;', 'var x = 1;', 'string s = "a";', 'const string s = "a"; ins_3(s);', 'const var v = 1;', 'void v;', 'int x = x;', 'int x; int x;',
          'const int A = B; const int B = A;', 'const int A = A;', 'break;', 'loop { break; break; }', 'goto nowhere;', 'x: x:', 'goto x @ 99999999999;', 'goto x @ -1; x:', 'if (I0) goto x @ 1.5; x:',
          'interrupt[1]:', 'interrupt[-1]:', 'interrupt[I0]:', 'interrupt[1.5]:', 'interrupt["a"]:', '{"E"}: nop();', '{"Q"}: nop();', '{""}: nop();', '{"*-*+"}: nop();', '{"E"}: {"N"}: nop();', '{"E"}: { nop(); }',
          '!E nop();', 'ins_3(@mask=1, @blob="00000000");', 'ins_3(@blob="0");', 'ins_3(@blob="zz");', 'ins_3(@blob="00000000", 1);', 'ins_3(@mask=I0);', 'ins_3(@pop=1);', 'ins_3(@arg0=1);', 'ins_3(@nargs=2);',
          'ins_3(@blob="' + '00' * 70000 + '");', 'ins_3(@mask=1, @mask=2);', 'ins_3(@bogus=1);', 'ins_70000();', 'ins_65535();', 'ins_65536();', 'ins_01();', 'ins_();', 'ins_x();', 'ins_3(1, 2, 3, 4, 5, 6, 7, 8, 9, 10, 11, 12, 13, 14, 15, 16, 17, 18, 19, 20);',
          'times(I0 = F0) {}', 'times(F0) {}', 'times(-1) {}', 'times(2147483647) { nop(); }', 'while (1.0) {}', 'do {} while ("a");', 'unless (I0 < F0) {}', 'I0 += 1.0;', 'F0 %= 0.0;', 'I0 <<= 33;', 'I0 >>>= -1;',
          'meta { a: 1 }', 'entry { }', 'script s { }', 'script -1 s { }', 'script 99999999999 s {}', '#pragma mapfile "does-not-exist.anmm"', '#pragma image_source "nope"', '#pragma bogus']
    for n in [8, 64, 200, 256]:
        B.append('I0 = %s;' % nest('(', ')', n, '1'))
        B.append('I0 = %s1;' % ('-(' * n) + ')' * n + ';' if False else 'I0 = %s;' % ('-(' * n + '1' + ')' * n))
        B.append('I0 = %s;' % ('~(' * n + '1' + ')' * n))
        B.append('I0 = %s;' % ('1 ? ' * n + '2' + ' : 3' * n))
        B.append(nest('{ ', ' }', n, 'nop();'))
        B.append('if (I0) { nop(); }' + ' else if (I0) { nop(); }' * n)
        B.append(('if (I0) { ' * n) + 'nop();' + (' }' * n))
        B.append(('loop { ' * n) + 'break;' + (' }' * n))
        B.append(('times(2) { ' * n) + 'nop();' + (' }' * n))
        B.append('I0 = ' + ' + '.join(['I1'] * n) + ';')
        B.append('I0 = ' + ' + '.join(['(I1 * I2)'] * n) + ';')
        B.append('I0 = (%s);' % ':'.join(['1'] * min(n, 40)))
        B.append('F0 = ' + 'sin(' * n + '1.0' + ')' * n + ';')
        B.append('ins_3(' + ', '.join(['1'] * n) + ');')
        B.append('int ' + ', '.join('v%d = %d' % (i, i) for i in range(n)) + ';')
    return B

def hostile_files():
    """Whole-file texts."""
    F = []
    F.append(('anm', 'th12', ''))
    F.append(('anm', 'th12', 'script s { }'))
    F.append(('anm', 'th12', 'entry { path: "a", sprites: {} }' * 300))
    F.append(('anm', 'th12', 'entry { path: "a", has_data: false, img_width: 99999999999, img_height: 1, sprites: {} }'))
    F.append(('anm', 'th12', 'entry { path: "a", has_data: true, img_width: 60000, img_height: 60000, img_format: 1, sprites: {} }'))
    # (a 65535x65535 dummy image is a legitimate request for a 17 GB file and is not treated as hostile)
    F.append(('anm', 'th12', 'entry { path: "a", has_data: false, sprites: {s: {id: -1, x: 0.0, y: 0.0, w: 1.0, h: 1.0}} }'))
    F.append(('anm', 'th12', 'entry { path: "a", has_data: false, sprites: {s: {id: 99999999999, x: 0.0, y: 0.0, w: 1.0, h: 1.0}} }'))
    F.append(('anm', 'th12', 'entry { path: "a", has_data: false, sprites: {s: {id: s, x: 0.0, y: 0.0, w: 1.0, h: 1.0}} }'))
    F.append(('anm', 'th12', 'entry { path: "a", has_data: false, sprites: {a: {id: b, x: 0.0, y: 0.0, w: 1.0, h: 1.0}, b: {id: a, x: 0.0, y: 0.0, w: 1.0, h: 1.0}} }'))
    F.append(('anm', 'th12', 'entry { path: "a", has_data: false, sprites: %s }' % nest('{a: ', '}', 200, '1')))
    F.append(('anm', 'th12', 'entry { path: "a", has_data: false, sprites: {}, extra: %s }' % nest('[', ']', 256, '1')))
    # resource-shaped requests carry an id: their signature is specific to this very input
    F.append(('msg', 'th08', 'meta { table: { 0: {script: "s"} }, table_len: 4000000000 }\nscript s { }', 'msg-table_len-4000000000'))
    F.append(('msg', 'th08', 'meta { table: { 3999999999: {script: "s"} } }\nscript s { }', 'msg-table-index-3999999999'))
    F.append(('msg', 'th08', 'meta { table: { 0: {script: "nope"} } }\nscript s { }'))
    F.append(('msg', 'th08', 'meta { table: { 0: {script: "s"}, 00: {script: "s"} } }\nscript s { }'))
    F.append(('msg', 'th08', 'meta { table: { 0: {script: "s"}, 0x0: {script: "s"} } }\nscript s { }'))
    F.append(('msg', 'th08', 'meta { table: { default: {script: "s"}, default: {script: "s"} } }\nscript s { }'))
    F.append(('msg', 'th08', 'meta { table: { x: {script: "s"} } }\nscript s { }'))
    F.append(('ecl', 'th07', 'script 2147483647 t {}\nvoid sub0() {}'))
    F.append(('ecl', 'th07', 'script -5 t {}\nvoid sub0() {}'))
    F.append(('ecl', 'th07', '\n'.join('script %d t%d {}' % (i, i) for i in range(40)) + '\nvoid sub0() {}'))
    F.append(('ecl', 'th06', 'void sub0(int a, int b, float c) { I0 = a + b; }\nscript timeline0 {}'))
    F.append(('ecl', 'th06', 'void sub0(' + ', '.join('int a%d' % i for i in range(300)) + ') { }\nscript timeline0 {}'))
    F.append(('ecl', 'th07', 'void sub0() { sub0(); sub1(1, 2.0); }\nvoid sub1(int x, float y) { sub0(); }\nscript timeline0 {}'))
    F.append(('ecl', 'th07', 'void sub0() { @sub0(); }\nscript timeline0 {}'))
    F.append(('ecl', 'th10', 'meta { ecli: [], anim: [] }\nvoid main() { }'))
    # calls in places that have no way to express them: call sugar inside a timeline, functions declared inside a sub or a script, inline / const functions
    for g in ('th06', 'th07', 'th08', 'th095'):
        F.append(('ecl', g, 'void Sub0() {}\nscript timeline0 {\n Sub0();\n}\n'))
        F.append(('ecl', g, 'void Sub0() {\n void helper() { }\n helper();\n}\nscript timeline0 {}\n'))
        F.append(('ecl', g, 'void Sub0() {\n int helper(int x) { return x; }\n I0 = helper(3);\n}\nscript timeline0 {}\n'))
        F.append(('ecl', g, 'inline void h() { }\nconst int k() { return 3; }\nvoid Sub0() {\n h();\n I0 = k();\n Sub0();\n}\nscript timeline0 {\n h();\n}\n'))
        F.append(('ecl', g, 'void Sub0(int a) {\n Sub0(a + 1);\n Sub1(1.5);\n}\nvoid Sub1(float x) {\n Sub0(_S(x));\n Sub0();\n Sub0(1, 2);\n}\nscript timeline0 {}\n'))
    F.append(('anm', 'th12', 'entry { path: "a", has_data: false, sprites: {} }\nscript s {\n void helper() { }\n helper();\n}\nvoid top() { }\nscript t {\n top();\n}\n'))
    F.append(('msg', 'th08', 'meta { table: { 0: {script: "s"} } }\nvoid f() { }\nscript s {\n f();\n}\n'))
    F.append(('std', 'th12', 'meta { unknown: 0, anm_path: "a.anm", objects: {}, instances: [] }\nvoid f() { }\nscript main {\n f();\n void g() { }\n g();\n}\n'))
    F.append(('std', 'th06', 'meta { unknown: 0, stage_name: "x", bgm: [], objects: {}, instances: [] }\nscript main {}'))
    F.append(('std', 'th06', 'meta { unknown: 0, stage_name: "x", bgm: [{path:"a",name:"b"},{path:"a",name:"b"},{path:"a",name:"b"},{path:"a",name:"b"}], objects: {}, instances: [] }\nscript main { ins_3(@blob="00000000"); }'))
    F.append(('std', 'th06', 'meta { unknown: 0, stage_name: "x", bgm: [{path:"a",name:"b"},{path:"a",name:"b"},{path:"a",name:"b"},{path:"a",name:"b"}], objects: {}, instances: [nope {pos: [0.0,0.0,0.0]}] }\nscript main { }'))
    F.append(('std', 'th12', 'meta { unknown: 0, anm_path: "%s", objects: {}, instances: [] }\nscript main {}' % ('x' * 300)))
    F.append(('std', 'th12', 'meta { unknown: 0, anm_path: "a", objects: {o: {layer: 70000, pos: [0.0,0.0,0.0], size: [0.0,0.0,0.0], quads: [blob {anm_script: 1}]}}, instances: [] }\nscript main {}'))
    return F

def mapfile_cases(rng):
    """(mapfile text) list: generated + hostile + mutated."""
    base = ['!anmmap\n!ins_names\n900 foo\n!ins_signatures\n900 SSf\n!gvar_names\n10000 MyReg\n!gvar_types\n10000 $\n',
            '!anmmap\n!ins_signatures\n900 z(bs=0)\n', '!anmmap\n!ins_signatures\n900 z(bs=4)S\n', '!anmmap\n!ins_signatures\n900 m(bs=4)\n', '!anmmap\n!ins_signatures\n900 m(len=0;mask=1,2,3)\n',
            '!anmmap\n!ins_signatures\n900 p(bs=0)\n', '!anmmap\n!ins_signatures\n900 z(len=4294967295)\n', '!anmmap\n!ins_signatures\n900 z(bs=4;len=4)\n', '!anmmap\n!ins_signatures\n900 S(arg0)\n',
            '!anmmap\n!ins_signatures\n900 s(arg0)S\n', '!anmmap\n!ins_signatures\n900 ot\n900 to\n', '!anmmap\n!ins_signatures\n900 oo\n', '!anmmap\n!ins_signatures\n900 t\n', '!anmmap\n!ins_signatures\n900 Q\n',
            '!anmmap\n!ins_signatures\n900 S(\n', '!anmmap\n!ins_signatures\n900 S(imm;imm)\n', '!anmmap\n!ins_signatures\n900 S(enum="")\n', '!anmmap\n!ins_signatures\n900 S(enum="int")\n',
            '!anmmap\n!ins_signatures\n99999999999 S\n', '!anmmap\n!ins_signatures\n-1 S\n', '!anmmap\n!ins_signatures\n70000 S\n', '!anmmap\n!ins_names\n900 ins_5\n', '!anmmap\n!ins_names\n900 if\n',
            '!anmmap\n!ins_names\n900 foo\n901 foo\n', '!anmmap\n!gvar_names\n10000 A\n10001 A\n', '!anmmap\n!gvar_types\n10000 x\n', '!anmmap\n!gvar_types\n10000 $\n10000 %\n',
            '!anmmap\n!ins_intrinsics\n900 Jmp()\n', '!anmmap\n!ins_signatures\n900 S\n!ins_intrinsics\n900 Jmp()\n', '!anmmap\n!ins_signatures\n900 ot\n!ins_intrinsics\n900 Bogus()\n',
            '!anmmap\n!ins_signatures\n900 SS\n!ins_intrinsics\n900 AssignOp(op="=";type="string")\n', '!anmmap\n!ins_signatures\n900 SS\n!ins_intrinsics\n900 AssignOp(op="??";type="int")\n',
            '!anmmap\n!ins_signatures\n900 Sot\n!ins_intrinsics\n900 CountJmp(op="<")\n', '!anmmap\n!difficulty_flags\n0 E-\n1 E-\n', '!anmmap\n!difficulty_flags\n8 X-\n', '!anmmap\n!difficulty_flags\n0 EE\n',
            '!anmmap\n!difficulty_flags\n0 é-\n', '!anmmap\n!enum(name="foo")\n1 a\n2 a\n', '!anmmap\n!enum(name="foo")\n1 a\n!enum(name="bar")\n2 a\n', '!anmmap\n!enum(name="")\n1 a\n', '!anmmap\n!enum(\n',
            '!anmmap\n!bogus_section\n1 a\n', '!eclmap\n!ins_names\n900 foo\n', '!gamemap\n12 nope.anmm\n', '', '!', '!anmmap', 'anmmap\n', '\xff\xfe', '!anmmap\n!ins_names\nfoo bar\n', '!anmmap\n!ins_names\n900\n',
            '!anmmap\n!ins_names\n 900 foo # comment\n', '!anmmap\n!ins_names\n900 ' + 'x' * 100000 + '\n', '!anmmap\n!ins_signatures\n900 ' + 'S' * 5000 + '\n', '!anmmap\n' + '!ins_names\n' * 2000]
    # section headers cut short / closed early at every position, and user enums that re-define the names of built-in enums and consts
    # (their definitions have no source location: every diagnostic about them must still render)
    hdr = '!enum(name="foo")'
    for i in range(1, len(hdr)):
        base.append('!anmmap\n' + hdr[:i] + '\n1 a\n'); base.append('!anmmap\n' + hdr[:i] + hdr[-2:] + '\n1 a\n'); base.append('!anmmap\n' + hdr[:i] + ')\n1 a\n')
    for en in ['bool', 'BitmapColorFormat', 'AnmScript', 'AnmSprite', 'EclSub', 'MsgScript', 'TimelineDifficulty']:
        for body in ['0 true\n', '1 false\n', '7 true\n0 false\n', '0 INF\n', '1 NAN\n', '1 PI\n', '3 FORMAT_ARGB_8888\n', '0 sprite0\n', '5 sprite0\n', '0 script0\n', '9 script0\n']:
            base.append('!anmmap\n!enum(name="%s")\n%s' % (en, body))
    base += ['!anmmap\n!gvar_names\n10000 true\n', '!anmmap\n!gvar_names\n10000 PI\n', '!anmmap\n!ins_names\n900 true\n', '!anmmap\n!gvar_names\n10000 sprite0\n10001 script0\n',
             '!anmmap\n!difficulty_flags\n0 true-\n']
    # gamemaps: files that name other mapfiles per game (12 = the game the ANM cases are compiled for): chains, cycles, missing files
    plain = '!anmmap\n!ins_names\n900 foo\n!ins_signatures\n900 SSf\n'
    base += ['!gamemap\n!game_files\n12 other.map\n@@FILE other.map\n' + plain,
             '!gamemap\n!game_files\n12 user.map\n',                                                                   # lists itself
             '!gamemap\n!game_files\n12 other.map\n@@FILE other.map\n!gamemap\n!game_files\n12 user.map\n',            # a -> b -> a
             '!gamemap\n!game_files\n12 other.map\n@@FILE other.map\n!gamemap\n!game_files\n12 third.map\n@@FILE third.map\n' + plain,   # a -> b -> plain
             '!gamemap\n!game_files\n12 other.map\n@@FILE other.map\n!gamemap\n!game_files\n12 third.map\n@@FILE third.map\n!gamemap\n!game_files\n12 other.map\n',
             '!gamemap\n!game_files\n12 missing.map\n', '!gamemap\n!game_files\n7 other.map\n@@FILE other.map\n' + plain, '!gamemap\n!game_files\n12 ./user.map\n',
             '!gamemap\n!game_files\n12 other.map\n12 third.map\n@@FILE other.map\n' + plain, '!gamemap\n!game_files\n12 \n', '!gamemap\n!game_files\n12 ..\n', '!gamemap\n!game_files\n12 /\n',
             '!gamemap\n!ins_names\n900 foo\n', '!gamemap\n!game_files\n99999 other.map\n', '!gamemap\n!game_files\n12 other.map\n@@FILE other.map\n!eclmap\n!ins_names\n900 foo\n']
    out = list(base)
    for b in base[:12]:
        for _ in range(2):
            m, _k = mutate.mutate_text(rng, b)
            out.append(m.decode('utf-8', 'surrogateescape') if isinstance(m, bytes) else m)
    # multi-byte characters at every kind of position (inside numbers, names, signatures, attribute lists, section headers)
    rich = ['!anmmap\n!ins_names\n900 foo\n!ins_signatures\n900 Sz(bs=4;mask=0x77,7,16)f\n!ins_intrinsics\n901 Jmp()\n!gvar_names\n10000 MyReg\n!gvar_types\n10000 $\n!difficulty_flags\n0 E-\n!enum(name="foo")\n1 a\n',
            '!eclmap\n!timeline_ins_signatures\n900 s(arg0;enum="EclSub")ff\n!ins_signatures\n901 m(len=32)\n']
    for b in rich:
        for _ in range(40):
            i = rng.randrange(len(b) + 1)
            out.append(b[:i] + rng.pick(['\u00e9', '\u65e5\u672c', '\u03b8', '\u202e', '\U0001f600']) + b[i:])
    return out

def split_mapfiles(text):
    """A mapfile case may consist of several files: `main text` followed by `@@FILE name` sections (gamemaps refer to other files by
    a path relative to themselves).  -> (main text, [(name, text)])"""
    parts = text.split('\n@@FILE ')
    extra = []
    for p in parts[1:]:
        name, _, body = p.partition('\n'); extra.append((name.strip(), body))
    return parts[0], extra

def run_shard(ctx):
    r = ctx.rng
    tables = formats.SigTables(ctx)
    n = SIZES[ctx.tier] // ctx.nshards + 1
    hb = hostile_bodies(); hf = hostile_files()
    plan = []
    # deterministic hostile lists are partitioned over the shards; generated/mutated inputs fill the rest
    for i, b in enumerate(hb):
        if i % ctx.nshards == ctx.shard:
            for tool in ('anm', 'ecl') if i % 3 else ('anm', 'ecl', 'std', 'msg'):
                plan.append(('hostile', tool, MINI[tool][1], (MINI[tool][0] % b).encode('utf-8'), None))
    for i, item in enumerate(hf):
        tool, game, text = item[:3]
        if i % ctx.nshards == ctx.shard: plan.append(('hostile', tool, game, text.encode('utf-8'), None, None, None, None, item[3] if len(item) > 3 else None))
    mfs = mapfile_cases(r)
    for i, m in enumerate(mfs):
        if i % ctx.nshards == ctx.shard:
            if m.startswith('!eclmap') and 'timeline' in m: plan.append(('mapfile', 'ecl', 'th07', b'void s0() {\n ins_901("abc");\n}\nscript timeline0 {\n ins_900(s0, 1.0, 2.0);\n}\n', m))
            else:
                plan.append(('mapfile', 'anm', 'th12', (MINI['anm'][0] % 'ins_900(1, 2, 3.0);').encode(), m))
                # (and with a source that does not depend on the mapfile, so that a mapfile that merely loads gets as far as the later passes)
                if i % 2 == 0 or ctx.tier != 'quick': plan.append(('mapfile', 'anm', 'th12', (MINI['anm'][0] % '$REG[10000] = $REG[10001] + 3;\nins_3(sprite0);').encode(), m))
    # the typing matrix of C09 (every operator/condition/count construct x operand types, well- and ill-typed): no cell may crash the compiler
    from .. import typematrix as TM
    for (tool, ir, fr, ir2, fr2) in (('anm', '$REG[10000]', '%REG[10004]', '$REG[10001]', '%REG[10005]'), ('ecl', '$REG[10000]', '%REG[10004]', '$REG[10001]', '%REG[10005]')):
        mk = {'anm': '!anmmap', 'ecl': '!eclmap'}[tool]
        for k, (tag, stmt, want) in enumerate(TM.cells(ir, fr, ir2, fr2, 'ins_900', 'ins_901')):
            if k % ctx.nshards == ctx.shard and (ctx.tier != 'quick' or (k // ctx.nshards) % 2 == (0 if tool == 'anm' else 1)):
                _w, text = TM.wrap(r, stmt, '$REG[10002]')
                plan.append(('typed-matrix', tool, MINI[tool][1], (MINI[tool][0] % text).encode(), mk + '\n!ins_signatures\n900 S\n901 f\n'))
    # intrinsic ABI matrix: every intrinsic kind declared on every signature over {o, t, S, f} of length <= 3 (and a few longer ones),
    # with dword/byte padding inserted at every position of a sample of them, and a body that *uses* the intrinsic so that the
    # declaration is exercised by lowering and not only by validation: a user mapfile must end in a diagnostic or in a working
    # table, never in a crash
    import itertools
    INTR = [('Jmp()', 'goto lbl;'), ('Interrupt()', 'interrupt[1]:'), ('AssignOp(op="="; type="int")', '%(I)s = 3;'), ('AssignOp(op="+="; type="float")', '%(F)s += 1.5;'),
            ('BinOp(op="+"; type="int")', '%(I)s = %(J)s + 3;'), ('BinOp(op="<"; type="float")', '%(I)s = %(F)s < 2.0;'), ('UnOp(op="-"; type="int")', '%(I)s = -%(J)s;'),
            ('UnOp(op="sin"; type="float")', '%(F)s = sin(%(G)s);'), ('CountJmp()', 'if (--%(I)s) goto lbl;'), ('CountJmp(op=">")', 'if (--%(I)s > 0) goto lbl;'),
            ('CondJmp(op="=="; type="int")', 'if (%(I)s == 1) goto lbl;'), ('CondJmp(op="<"; type="float")', 'if (%(F)s < 1.0) goto lbl @ 5;'), ('DedicatedCmp(type="int")', 'if (%(I)s != 2) goto lbl;'),
            ('DedicatedCmpJmp(op="!=")', 'if (%(I)s != 2) goto lbl;'), ('CallEosd()', 'sub0(1, 2.0);'), ('CallReg()', 'sub0();')]
    base_sigs = [''.join(t) for n in range(0, 4) for t in itertools.product('otSf', repeat=n)] + ['SSot', 'ffto', 'otSS', 'Sfot', 'oSSt', 'tSSo', 'E(imm)S(imm)f(imm)', 'ESf', 'S(imm)', 'oo', 'tt', 'ott', 'oot',
                                                                                          'SSSot', 'Sffot', 'fSS', 'ffot', 'Sto']
    padded = []
    for sg in [x for x in base_sigs if 1 <= len(x) <= 5 and '(' not in x]:
        for pos in range(len(sg) + 1):
            padded.append(sg[:pos] + '_' + sg[pos:])
            if pos < len(sg): padded.append(sg[:pos] + '----' + sg[pos:])
    k = 0
    for tool, mk, game in (('anm', '!anmmap', 'th12'), ('ecl', '!eclmap', 'th06'), ('ecl', '!eclmap', 'th08')):
        regs = {'I': '$REG[%d]' % (10000 if tool == 'anm' else -10001), 'J': '$REG[%d]' % (10001 if tool == 'anm' else -10002),
                'F': '%%REG[%d]' % (10004 if tool == 'anm' else -10005), 'G': '%%REG[%d]' % (10005 if tool == 'anm' else -10006)}
        for intr, stmt in INTR:
            for si, sg in enumerate(base_sigs + padded):
                k += 1
                if k % ctx.nshards != ctx.shard: continue
                if si < len(base_sigs):
                    if ctx.tier == 'quick' and (k // ctx.nshards) % 3 != (ctx.seed % 3): continue
                elif (k // ctx.nshards) % (12 if ctx.tier == 'quick' else 2) != (ctx.seed % (12 if ctx.tier == 'quick' else 2)): continue
                body = '$REG[%d] = 3;\nlbl:\n%s\ngoto lbl;' % (10000 if game != 'th06' else -10001, stmt % regs)
                plan.append(('intrinsic-abi', tool, game, (MINI[tool][0] % body).encode(), '%s\n!ins_signatures\n900 %s\n!ins_intrinsics\n900 %s\n' % (mk, sg, intr)))
    # label-valued arguments (offsetof / timeof) in parameters of every width: the value is only known after the first encoding pass
    k = 0
    for tool, mk, game in (('anm', '!anmmap', 'th12'), ('ecl', '!eclmap', 'th07'), ('anm', '!anmmap', 'th06')):
        for ch in ['b', 'c', 's', 'u', 'S', 'U', 'f', 'n', 'N', 'E', 'C', 'o', 't', 'b(imm)', 's(hex)', 'z(bs=4)', 'S(arg0)' if False else 's(imm)']:
            for fn in ('timeof', 'offsetof'):
                for far in (0, 200, 300, 40000, 70000, -200, -40000):
                    k += 1
                    if k % ctx.nshards != ctx.shard: continue
                    filler = '\n'.join(['ins_901(1, 2, 3, 4, 5, 6, 7, 8);'] * (1 + abs(far) // 40 if fn == 'offsetof' else 1))
                    body = 'ins_900(%s(lbl));\n%s\n%s:\nlbl:\nins_901(1, 2, 3, 4, 5, 6, 7, 8);' % (fn, filler, far) if far >= 0 else \
                           '%s:\nlbl:\n%s\n0:\nins_900(%s(lbl));' % (far, filler, fn)
                    plan.append(('label-arg', tool, game, (MINI[tool][0] % body).encode(), '%s\n!ins_signatures\n900 %s\n901 SSSSSSSS\n' % (mk, ch)))
    corpus_dir = os.path.join(core.VERIF, 'corpus', 'C04')
    if os.path.isdir(corpus_dir):
        for i, name in enumerate(sorted(os.listdir(corpus_dir))):
            if i % ctx.nshards == ctx.shard and name.endswith('.json'):
                rec = json.load(open(os.path.join(corpus_dir, name)))
                plan.append(('corpus', rec['tool'], rec['game'], rec['text'].encode('utf-8', 'surrogateescape'), rec.get('mapfile')))
    k = 0
    while len(plan) < n:
        gf = formats.gen_any(r, tables)
        plan.append(('generated', gf.tool, gf.game, gf.text.encode('utf-8'), None, gf.msg_mode, gf.kind))
        for _ in range(r.wpick([(0, 1), (2, 2), (5, 1)])):
            m, kind = mutate.mutate_text(r, gf.text)
            plan.append(('mutant', gf.tool, gf.game, m, None, gf.msg_mode, gf.kind, kind))
    for item in plan[:max(n, len(plan)) if ctx.tier == 'quick' else len(plan)]:
        cls, tool, game, data, mapfile = item[:5]
        msg_mode = item[5] if len(item) > 5 else None
        src = ctx.write('in.txt', data)
        out = os.path.join(ctx.dir, 'out.bin')
        if os.path.exists(out): os.unlink(out)
        job = {'tool': tool, 'cmd': 'compile', 'game': game, 'in': src, 'out': out}
        if msg_mode: job['msg_mode'] = msg_mode
        if mapfile is not None:
            main, extra = split_mapfiles(mapfile)
            for name, body in extra: ctx.write(name, body.encode('utf-8', 'surrogateescape'))
            job['maps'] = [ctx.write('user.map', main.encode('utf-8', 'surrogateescape'))]
        resp = ctx.cli(job)
        ctx.evaluations += 1
        replay = {'job': dict(job, **{'in': 'in.txt', 'out': 'out.bin', 'maps': ['user.map'] if mapfile is not None else []}),
                  'text': data.decode('utf-8', 'surrogateescape'), 'mapfile': mapfile, 'class': cls}
        input_id = item[8] if len(item) > 8 else None
        v = crash.judge_exec(ctx, 'C04', job, resp, len(data), '%s compile -g %s (%s input)' % (core.TOOLBIN[tool], game, cls), replay, input_id=input_id, memory_clause=False)   # (memory exhaustion is part of C16's statement, not C04's; aborts are still observed)
        ctx.count({'generated': 'generated', 'mutant': 'mutants', 'hostile': 'hostile', 'mapfile': 'mapfile_cases', 'corpus': 'corpus', 'typed-matrix': 'typed_matrix', 'intrinsic-abi': 'intrinsic_abi_cells', 'label-arg': 'label_arg_cells'}[cls])
        if cls == 'generated':
            ctx.count('generated_valid_accepted' if v == 'ok' else 'generated_rejected')
            if v == 'err': ctx.seen('generated_reject_reasons', '%s:%s: %s' % (item[6], game, core.norm_msg(core.headline(resp.get('diag', '')))[:70]))
        ctx.seen('tool_game', '%s:%s:%s' % (tool, game, msg_mode or ''))
        ctx.count('verdict_' + v)
        if len(data) >= 20: ctx.fp(hash(data), tool, game)
        if cls in ('generated', 'mutant'): ctx.sample({'class': cls, 'tool': tool, 'game': game, 'text': data.decode('utf-8', 'replace')[:400], 'ok': resp.get('ok'), 'diag': (resp.get('diag') or '')[:200]}, cap=3)
        if v in ('violation',) or (ctx.evaluations % 50 == 0 and v in ('ok', 'err')):
            crash.cross_check_cli(ctx, job, resp, ctx.profile)

def replay(path):
    rec = json.load(open(path))
    import tempfile, shutil
    d = tempfile.mkdtemp(prefix='replay-')
    try:
        job = dict(rec['job'])
        open(os.path.join(d, 'in.txt'), 'wb').write(rec['text'].encode('utf-8', 'surrogateescape'))
        job['in'] = os.path.join(d, 'in.txt'); job['out'] = os.path.join(d, 'out.bin')
        if rec.get('mapfile') is not None:
            main, extra = split_mapfiles(rec['mapfile'])
            for name, body in extra: open(os.path.join(d, name), 'wb').write(body.encode('utf-8', 'surrogateescape'))
            open(os.path.join(d, 'user.map'), 'wb').write(main.encode('utf-8', 'surrogateescape')); job['maps'] = [os.path.join(d, 'user.map')]
        else: job.pop('maps', None)
        rc, out, err = core.run_vtruth(core.job_argv(job), rec.get('profile', 'dev'))
        print('argv:', ' '.join(core.job_argv(job))); print('exit status:', rc); print(err[-3000:])
        bad = rc not in (0, 1) or (rc == 0) == core.has_error_diag(err)
        if bad: print('VIOLATION property=C04 replay=%s' % path)
        return 1 if bad else 0
    finally:
        shutil.rmtree(d, ignore_errors=True)
