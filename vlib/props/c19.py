"""C19 - output is a deterministic function of the inputs (repeated fresh processes)."""
import json, os, shutil, hashlib
from .. import core, formats, corpus, mutate

META = {
    'level': 'exploration',
    'rule': 'per (command, input files): N fresh vtruth processes (each draws new hash-map seeds); stdout, stderr and output files must be byte-identical across the N runs. '
            'Inputs: sources constructed to have >= 2 competing entries wherever a hash map is iterated on the way to output (register-name clashes, too-complex notes, mapfile enums, '
            'near-tie suggestions), plus generated valid and invalid sources, decompiles and extracts of corpus binaries. N = 8 (quick) / 40 (thorough). '
            'distinct = hash(command, input); non-trivial = the run printed a diagnostic or wrote an output file',
    'assumptions': ['per-process HashMap seeding is the only source of run-to-run variation (single-threaded tool); with k >= 2 competing entries a divergence shows with probability >= 1/2 per extra run'],
    'floors': {'inputs': 40, 'process_runs': 300, 'constructed_inputs': 20},
}
N = {'quick': 8, 'thorough': 40}
NINPUTS = {'quick': 200, 'thorough': 1600}

ANM_HEAD = 'entry { path: "a.png", has_data: false, img_width: 64, img_height: 64, img_format: 3, sprites: {s0: {id: 0, x: 0.0, y: 0.0, w: 1.0, h: 1.0}} }\n'

def constructed():
    """(name, tool, game, source text, mapfile text or None)"""
    C = []
    C.append(('eosd-param-alias-2', 'ecl', 'th06', 'void sub0(int a, float x) {\n I0 = a + 1;\n F0 = x * 2.0;\n}\nscript timeline0 {}\n', '/repo/map/any.eclm'))
    C.append(('eosd-param-alias-3', 'ecl', 'th06', 'void sub0(int a, float x) {\n I0 = a;\n F0 = x;\n I1 = a;\n}\nvoid sub1(int b, float y) {\n I0 = b;\n F0 = y;\n}\nscript timeline0 {}\n', '/repo/map/any.eclm'))
    C.append(('eosd-param-alias-raw', 'ecl', 'th06', 'void sub0(int a, float x) {\n REG[-10001] = a + 1;\n REG[-10005] = x * 2.0;\n}\nscript timeline0 {}\n', None))
    C.append(('anm-too-complex', 'anm', 'th12', ANM_HEAD + 'script s {\n int a = 1; int b = 2; int c = 3; int d = 4; int e = 5; int f = 6; int g = 7;\n float p = 1.0; float q = 2.0; float r = 3.0; float t = 4.0; float u = 5.0;\n ins_3(a+b+c+d+e+f+g);\n}\n', None))
    C.append(('anm-too-complex-mentions', 'anm', 'th12', ANM_HEAD + 'script s {\n I0 = 1; I1 = 2; I2 = 3; int a = I3; int b = 2; int c = 3; int d = (a * b) + (c * a) + (b * c);\n}\n', '/repo/map/any.anmm'))
    C.append(('many-type-errors', 'anm', 'th12', ANM_HEAD + 'script s {\n I0 = 1.0; F0 = 1; I1 = "x"; ins_3(1.5); ins_7(2); I2 = F0 + 1; F1 = I0 * 2.0;\n}\n', '/repo/map/any.anmm'))
    C.append(('many-unknown-names', 'anm', 'th12', ANM_HEAD + 'script s {\n aaa = 1; bbb = 2; ccc(3); ddd = eee + fff;\n}\n', None))
    enums = '!anmmap\n' + ''.join('!enum(name="E%d")\n1 v%da\n2 v%db\n' % (i, i, i) for i in range(6)) + '!ins_signatures\n900 S(enum="E1")S(enum="E2")S(enum="E3")\n'
    C.append(('enum-near-miss', 'anm', 'th12', ANM_HEAD + 'script s {\n ins_900(v1x, v2x, v3x);\n}\n', enums))
    C.append(('enum-wrong-colour', 'anm', 'th12', ANM_HEAD + 'script s {\n ins_900(v2a, v3a, v1a);\n ins_900(E4.v4a, E5.v5a, E0.v0a);\n}\n', enums))
    clash = '!anmmap\n!enum(name="A")\n1 same\n!enum(name="B")\n2 same\n!enum(name="C")\n3 same\n!ins_signatures\n900 S\n901 S(enum="A")\n'
    C.append(('enum-ambiguous', 'anm', 'th12', ANM_HEAD + 'script s {\n ins_900(same);\n ins_901(same);\n}\n', clash))
    dup = '!anmmap\n!gvar_names\n10000 X\n10001 X\n10002 Y\n10003 Y\n!ins_names\n900 f\n901 f\n902 g\n903 g\n!ins_signatures\n900 S\n901 S\n902 S\n903 S\n'
    C.append(('mapfile-dup-names', 'anm', 'th12', ANM_HEAD + 'script s {\n ins_900(1);\n}\n', dup))
    badsig = '!anmmap\n!ins_signatures\n900 Q\n901 W\n902 S(\n903 z\n!ins_intrinsics\n904 Jmp()\n905 Jmp()\n'
    C.append(('mapfile-many-errors', 'anm', 'th12', ANM_HEAD + 'script s {\n}\n', badsig))
    C.append(('redefinitions', 'anm', 'th12', ANM_HEAD + 'script s {\n int a = 1; int a = 2; float b = 1.0; float b = 2.0; const int K = 1; const int K = 2;\n x: x: y: y:\n}\n', None))
    C.append(('sprite-clash', 'anm', 'th12', 'entry { path: "a.png", has_data: false, img_width: 64, img_height: 64, img_format: 3, sprites: {s0: {id: 0, x: 0.0, y: 0.0, w: 1.0, h: 1.0}, s1: {id: 5, x: 0.0, y: 0.0, w: 1.0, h: 1.0}} }\nentry { path: "b.png", has_data: false, img_width: 64, img_height: 64, img_format: 3, sprites: {s0: {id: 1, x: 0.0, y: 0.0, w: 1.0, h: 1.0}, s1: {id: 6, x: 0.0, y: 0.0, w: 1.0, h: 1.0}} }\nscript s { ins_3(s0); ins_3(s1); }\n', None))
    C.append(('ecl-call-mismatch', 'ecl', 'th07', 'void sub0() { sub1(1); sub1(1.0, 2); sub2(); }\nvoid sub1(int a, float b) { }\nscript timeline0 {}\n', None))
    C.append(('const-cycle', 'anm', 'th12', ANM_HEAD + 'const int A = B + 1; const int B = C + 1; const int C = A + 1; const int D = E; const int E = D;\nscript s { ins_3(A); ins_3(D); }\n', None))
    C.append(('msg-unused', 'msg', 'th08', 'meta { table: { 0: {script: "a"} } }\nscript a { }\nscript b { }\nscript c { }\nscript d { }\n', None))
    C.append(('debug-info', 'anm', 'th12', ANM_HEAD + 'const int K1 = 3; const int K2 = K1 * 2; const float Z = 1.5;\nscript s {\n int a = K1; float b = Z; int c = K2 + a;\n ins_3(c);\n}\nscript t {\n int q = 1; int w = 2;\n ins_3(q + w);\n}\n', None))
    # one intrinsic given to several opcodes (on top of the built-in table): which opcode the compiler picks must not depend on iteration order
    multi = '!anmmap\n!ins_signatures\n900 ot\n901 ot\n902 SS\n903 SS\n904 ff\n905 ff\n!ins_intrinsics\n900 Jmp()\n901 Jmp()\n902 AssignOp(op="="; type="int")\n903 AssignOp(op="="; type="int")\n904 AssignOp(op="="; type="float")\n905 AssignOp(op="="; type="float")\n'
    C.append(('intrinsic-on-several-opcodes', 'anm', 'th12', ANM_HEAD + 'script s {\n $REG[10000] = 3;\n %REG[10004] = 1.5;\n lbl:\n $REG[10001] = $REG[10000];\n goto lbl;\n}\n', multi))
    multi_e = multi.replace('!anmmap', '!eclmap')
    C.append(('intrinsic-on-several-opcodes-ecl', 'ecl', 'th07', 'void sub0() {\n $REG[10000] = 3;\n %REG[10004] = 1.5;\n lbl:\n $REG[10001] = $REG[10000];\n goto lbl;\n}\nscript timeline0 {}\n', multi_e))
    C.append(('names-on-several-opcodes', 'anm', 'th12', ANM_HEAD + 'script s {\n foo(1);\n bar(2);\n $A = 1;\n $B = 2;\n}\n',
              '!anmmap\n!ins_names\n900 foo\n901 foo\n902 bar\n900 bar\n!ins_signatures\n900 S\n901 S\n902 S\n!gvar_names\n10000 A\n10001 A\n10002 B\n10000 B\n'))
    # mapfile validation: several signatures that each name an unknown enum (one error per signature: their order), and an unknown
    # enum name with several equally distant candidates (which one is suggested)
    C.append(('mapfile-unknown-enums', 'anm', 'th12', ANM_HEAD + 'script s {\n}\n',
              '!anmmap\n!ins_signatures\n' + ''.join('%d S(enum="Nope%s")\n' % (900 + i, ch) for i, ch in enumerate('ABCDEFGH'))))
    C.append(('mapfile-unknown-enums-ecl', 'ecl', 'th07', 'void sub0() {}\nscript timeline0 {}\n',
              '!eclmap\n!ins_signatures\n' + ''.join('%d S(enum="Nope%s")\n' % (900 + i, ch) for i, ch in enumerate('ABCDEF')) +
              '!timeline_ins_signatures\n' + ''.join('%d s(arg0;enum="NopeT%s")\n' % (900 + i, ch) for i, ch in enumerate('ABC'))))
    C.append(('enum-suggestion-tie', 'anm', 'th12', ANM_HEAD + 'script s {\n}\n',
              '!anmmap\n' + ''.join('!enum(name="Abcdef%d")\n1 v%d\n' % (i, i) for i in range(1, 7)) + '!ins_signatures\n900 S(enum="Abcdef")\n'))
    C.append(('enum-suggestion-tie-in-source', 'anm', 'th12', ANM_HEAD + 'script s {\n ins_3(Abcdef.v1);\n}\n',
              '!anmmap\n' + ''.join('!enum(name="Abcdef%d")\n1 v%d\n' % (i, i) for i in range(1, 7))))
    # two *different* intrinsics that can serve the same construct (both decrement-jump flavours; one-part and two-part conditional
    # jumps; native and fallback negation): which one the compiler prefers must not depend on iteration order
    for tool, game, mk, (ri, rj, rf) in (('anm', 'th12', '!anmmap', ('$REG[10000]', '$REG[10001]', '%REG[10004]')), ('ecl', 'th07', '!eclmap', ('$REG[10000]', '$REG[10001]', '%REG[10004]')),
                                        ('ecl', 'th06', '!eclmap', ('$REG[-10001]', '$REG[-10002]', '%REG[-10005]'))):
        alt = mk + '\n!ins_signatures\n900 Sot\n901 Sot\n902 SSot\n903 SS\n904 ot\n905 SS\n906 ffot\n907 ff\n!ins_intrinsics\n900 CountJmp(op=">")\n901 CountJmp(op="!=")\n' \
              '902 CondJmp(op="=="; type="int")\n903 DedicatedCmp(type="int")\n904 DedicatedCmpJmp(op="==")\n905 UnOp(op="-"; type="int")\n906 CondJmp(op="<"; type="float")\n907 DedicatedCmp(type="float")\n'
        body = ' %s = 5;\n times(%s = 3) {\n  %s = -%s;\n }\n times(4) { %s = 1; }\n lbl:\n if (%s == 2) goto lbl;\n if (%s < 1.5) goto lbl;\n do { %s = 2; } while (--%s);\n' % (ri, rj, ri, rj, ri, ri, rf, ri, rj)
        src = (ANM_HEAD + 'script s {\n%s}\n' % body) if tool == 'anm' else ('void sub0() {\n%s}\nscript timeline0 {}\n' % body)
        C.append(('alternative-intrinsics-%s-%s' % (tool, game), tool, game, src, alt))
    return C

def constructed_binaries():
    """(name, tool, game, source, mapfile used to compile, mapfile used to decompile or None): decompile inputs with >= 2 competing entries."""
    B = []
    sigs = '!anmmap\n!ins_signatures\n' + ''.join('%d S\n' % op for op in range(2001, 2009))
    body = ''.join(' ins_%d(%d);\n' % (op, op) for op in (2005, 2001, 2008, 2003, 2002, 2007, 2004, 2006))
    B.append(('decompile-unknown-opcodes', 'anm', 'th12', ANM_HEAD + 'script s {\n%s}\nscript t {\n%s}\n' % (body, body), sigs, None))
    B.append(('decompile-unknown-opcodes-ecl', 'ecl', 'th07', 'void sub0() {\n%s}\nscript timeline0 {}\n' % body, sigs.replace('!anmmap', '!eclmap'), None))
    B.append(('decompile-unknown-opcodes-std', 'std', 'th12', 'meta { unknown: 0, anm_path: "a.anm", objects: {}, instances: [] }\nscript main {\n%s}\n' % body, sigs.replace('!anmmap', '!stdmap'), None))
    B.append(('decompile-unknown-opcodes-msg', 'msg', 'th12', 'meta { table: {0: {script: "s0"}} }\nscript s0 {\n%s}\n' % body.replace('ins_20', 'ins_1'), sigs.replace('!anmmap', '!msgmap').replace('\n20', '\n1'), None))
    names = '!anmmap\n!ins_names\n2001 foo\n2001 bar\n2002 foo2\n2002 bar2\n!gvar_names\n10000 A\n10000 B\n10001 C\n10001 D\n' + sigs.split('\n', 1)[1]
    B.append(('decompile-several-names', 'anm', 'th12', ANM_HEAD + 'script s {\n ins_2001($REG[10000]);\n ins_2002($REG[10001]);\n}\n', sigs, names))
    wrongsigs = '!anmmap\n!ins_signatures\n' + ''.join('%d %s\n' % (op, sg) for op, sg in zip(range(2001, 2009), ['SS', 'f', 'SSS', 'z(bs=4)', 'ff', 'S', 'SS', 'fS']))
    B.append(('decompile-wrong-signatures', 'anm', 'th12', ANM_HEAD + 'script s {\n%s}\n' % body, sigs, wrongsigs))
    # PCB-StB ECL: the decompiler infers each sub's parameters from its call sites; here they disagree, with equally many sites for every shape
    calls = 'script timeline0 {}\nvoid worker() {\n ins_0();\n}\nvoid other() {\n ins_0();\n}\nvoid caller() {\n' \
            ' $REG[10037] = 3;\n $REG[10038] = 4;\n ins_41(worker);\n $REG[10037] = 5;\n %REG[10041] = 2.0;\n ins_41(worker);\n %REG[10041] = 1.0;\n ins_41(worker);\n ins_41(worker);\n' \
            ' %REG[10041] = 1.0;\n %REG[10042] = 2.0;\n ins_41(other);\n $REG[10037] = 1;\n ins_41(other);\n}\n'
    for g in ('th07', 'th08', 'th095'):
        B.append(('decompile-callsites-disagree-%s' % g, 'ecl', g, calls if g == 'th07' else calls.replace('ins_41(', 'ins_52('), '!eclmap\n', None))
    return B

def run_n(ctx, argv_fn, n, outputs):
    """Run n fresh processes; returns list of observation digests (and the first observation in full)."""
    obs = []
    first = None
    for i in range(n):
        for o in outputs:
            p = os.path.join(ctx.dir, o)
            if os.path.isdir(p): shutil.rmtree(p, ignore_errors=True)
            elif os.path.exists(p): os.unlink(p)
        rc, out, err = core.run_vtruth(argv_fn(), ctx.profile, cwd=ctx.dir, limit=False)
        ctx.count('process_runs')
        files = {}
        for o in outputs:
            p = os.path.join(ctx.dir, o)
            if os.path.isdir(p):
                for root, _, fs in os.walk(p):
                    for f in sorted(fs):
                        fp = os.path.join(root, f); files[os.path.relpath(fp, ctx.dir)] = hashlib.md5(open(fp, 'rb').read()).hexdigest()
            elif os.path.exists(p):
                files[o] = hashlib.md5(open(p, 'rb').read()).hexdigest()
        rec = {'rc': rc, 'stdout': out.decode('utf-8', 'replace'), 'stderr': err, 'files': files}
        if first is None: first = rec
        obs.append(rec)
    return obs, first

def judge(ctx, name, argv, obs, first, replay, constructed=False):
    ctx.evaluations += 1; ctx.count('inputs')
    if constructed: ctx.count('constructed_inputs')
    if any(o['rc'] is None for o in obs):
        ctx.inconcl('process timeout'); return
    if any(o['rc'] in (-9, -15) for o in obs):
        # SIGKILL / SIGTERM never come from truth itself (it sends no signals): the process was killed from outside (OOM killer, operator)
        ctx.inconcl('process killed from outside (SIGKILL/SIGTERM)'); return
    diffs = set()
    for o in obs[1:]:
        for k in ('rc', 'stdout', 'stderr', 'files'):
            if o[k] != first[k]: diffs.add(k)
    if diffs:
        other = next(o for o in obs[1:] if any(o[k] != first[k] for k in diffs))
        what = 'differs in ' + ','.join(sorted(diffs))
        head = core.norm_msg(core.headline(first['stderr'])) if 'stderr' in diffs else ('output-files' if 'files' in diffs else 'stdout')
        ctx.violation('nondeterminism:%s' % head[:100], what, dict(replay, argv=argv, run_a={'rc': first['rc'], 'stderr': first['stderr'][-3000:], 'stdout': first['stdout'][-2000:], 'files': first['files']},
                                                                     run_b={'rc': other['rc'], 'stderr': other['stderr'][-3000:], 'stdout': other['stdout'][-2000:], 'files': other['files']}))
    if first['stderr'].strip() or first['files']:
        ctx.fp(name, hashlib.md5(json.dumps(replay, sort_keys=True, default=str).encode()).hexdigest())
    ctx.seen('exit_codes', first['rc'])
    if first['stderr'].strip(): ctx.count('inputs_with_diagnostics')
    ctx.sample({'input': name, 'argv': argv[:6], 'rc': first['rc'], 'stderr': first['stderr'][:300]}, cap=3)

def run_shard(ctx):
    r = ctx.rng
    n = N[ctx.tier]
    tables = formats.SigTables(ctx)
    # constructed inputs, partitioned over shards
    for i, (name, tool, game, text, mapfile) in enumerate(constructed()):
        if i % ctx.nshards != ctx.shard: continue
        ctx.write('in.txt', text)
        maps = []
        if mapfile:
            if mapfile.startswith('/'): maps = [mapfile]
            else: ctx.write('user.map', mapfile); maps = ['user.map']
        job = {'tool': tool, 'cmd': 'compile', 'game': game, 'in': 'in.txt', 'out': 'out.bin', 'maps': maps, 'debug_info': 'debug.json'}
        argv = core.job_argv(job)
        obs, first = run_n(ctx, lambda: argv, n, ['out.bin', 'debug.json'])
        judge(ctx, name, argv, obs, first, {'text': text, 'mapfile': mapfile, 'job': job}, constructed=True)
    ncon = len(constructed())
    for i, (name, tool, game, text, cmap, dmap) in enumerate(constructed_binaries()):
        if (i + ncon) % ctx.nshards != ctx.shard: continue
        src = ctx.write('cb.txt', text); mp = ctx.write('cb.map', cmap)
        c = ctx.cli({'tool': tool, 'cmd': 'compile', 'game': game, 'in': src, 'out': os.path.join(ctx.dir, 'in.bin'), 'maps': [mp]})
        if not c.get('ok'): raise core.HarnessError('constructed binary %s does not compile: %s' % (name, c.get('diag')))
        maps = []
        if dmap: ctx.write('user.map', dmap); maps = ['user.map']
        job = {'tool': tool, 'cmd': 'decompile', 'game': game, 'in': 'in.bin', 'maps': maps, 'width': 100}
        argv = core.job_argv(job)
        obs, first = run_n(ctx, lambda: argv, n, [])
        judge(ctx, name, argv, obs, first, {'text': text, 'compile_mapfile': cmap, 'decompile_mapfile': dmap, 'job': job}, constructed=True)
    total = NINPUTS[ctx.tier] // ctx.nshards + 1
    corp = [e for i, e in enumerate(corpus.bundled()) if i % ctx.nshards == ctx.shard]
    done = 0
    while done < total:
        k = r.wpick([('compile-valid', 3), ('compile-mutant', 3), ('decompile', 3), ('extract', 0.7)])
        if k in ('compile-valid', 'compile-mutant'):
            gf = formats.gen_any(r, tables)
            data = gf.text.encode()
            if k == 'compile-mutant': data, _ = mutate.mutate_text(r, gf.text)
            ctx.write('in.txt', data)
            job = gf.compile_job('in.txt', 'out.bin', debug_info='debug.json')
            argv = core.job_argv(job)
            obs, first = run_n(ctx, lambda: argv, n, ['out.bin', 'debug.json'])
            judge(ctx, k + ':' + gf.kind, argv, obs, first, {'text': data.decode('utf-8', 'surrogateescape'), 'job': job})
            if first['rc'] == 0 and os.path.exists(os.path.join(ctx.dir, 'out.bin')):
                corp.append({'name': 'gen', 'tool': gf.tool, 'game': gf.game, 'msg_mode': gf.msg_mode, 'data': open(os.path.join(ctx.dir, 'out.bin'), 'rb').read()})
                corp = corp[-40:]
        elif corp:
            e = r.pick(corp)
            data = e['data']
            if r.chance(0.3): data, _, _ = mutate.mutate_bytes(r, data)
            ctx.write('in.bin', data)
            if k == 'extract' and e['tool'] == 'anm':
                job = {'tool': 'anm', 'cmd': 'extract', 'game': e['game'], 'in': 'in.bin', 'out': 'exdir'}
                outs = ['exdir']
            else:
                job = {'tool': e['tool'], 'cmd': 'decompile', 'game': e['game'], 'in': 'in.bin', 'dopts': {o: False for o in ('blocks', 'intrinsics', 'arguments', 'diff_switches', 'calls') if r.chance(0.2)}, 'width': r.pick([20, 80, 100])}
                if e.get('msg_mode'): job['msg_mode'] = e['msg_mode']
                outs = []
            argv = core.job_argv(job)
            obs, first = run_n(ctx, lambda: argv, n, outs)
            judge(ctx, k, argv, obs, first, {'data_hex': data.hex(), 'job': job})
        done += 1

def replay(path):
    rec = json.load(open(path))
    import tempfile
    d = tempfile.mkdtemp(prefix='replay-')
    try:
        if 'text' in rec: open(os.path.join(d, 'in.txt'), 'wb').write(rec['text'].encode('utf-8', 'surrogateescape'))
        if 'data_hex' in rec: open(os.path.join(d, 'in.bin'), 'wb').write(bytes.fromhex(rec['data_hex']))
        if rec.get('mapfile') and not rec['mapfile'].startswith('/'): open(os.path.join(d, 'user.map'), 'w').write(rec['mapfile'])
        seen = set()
        for i in range(24):
            rc, out, err = core.run_vtruth(rec['argv'], cwd=d)
            seen.add((rc, out, err))
        print('%d distinct observations in 24 runs' % len(seen))
        if len(seen) > 1:
            for s in list(seen)[:2]: print('---'); print(s[2][-1500:])
            print('VIOLATION property=C19 replay=%s' % path); return 1
        return 0
    finally:
        shutil.rmtree(d, ignore_errors=True)
