"""C16 - any binary input ends in success or a diagnostic, never a crash."""
import json, os, shutil
from .. import core, formats, mutate, crash, corpus
from .. import fieldmut as FM

META = {
    'level': 'exploration',
    'rule': 'corpus = 30 bundled binaries + binaries compiled from generated sources (all formats/games, incl. ANM files with embedded textures and TH10+ ECL); each is fed '
            'unmodified, truncated (stride and at every field boundary), *field-targeted* (an independent layout parser records every header field, count, offset, size, '
            'instruction header and bulk region it reads; one or two of them are set to boundary values: 0, 1, max, sign bit, +-1, x2, file length...; regions get damaged '
            'bytes / missing NULs), generically byte/word/dword-mutated and cross-game, to decompile (random option subsets, widths) and to `truanm extract`; observed: worker death, panic site, CPU seconds, peak allocation, Result vs diagnostics, file named in the error. '
            'distinct = hash(mutated bytes, tool, game, entry point); non-trivial = input differs from a pristine corpus file',
    'assumptions': ['memory bound: peak allocation <= 64 MiB + 4096 x input size', '"hangs" restated as > 20 CPU-seconds per input'],
    'floors': {'pristine_ok': 10, 'mutants': 300, 'mutants_rejected_with_diagnostic': 30, 'extract_runs': 20, 'field_mutants': 200, 'corpus_anm_with_texture': 3, 'corpus_modern_ecl': 3},
    'profiles': {'quick': ('dev',), 'thorough': ('dev', 'release')},
}
SIZES = {'quick': 16000, 'thorough': 200000}
OPTS = ['blocks', 'intrinsics', 'arguments', 'diff_switches', 'calls']

def output_image_tag(data, game):
    """A file whose own (width + offset) x (height + offset) asks for an output image beyond the memory bound: the one recorded cause
    of large allocations in extract.  Computed from the bytes by the independent layout parser, never from truth."""
    from .. import layout as L
    try: ents = L.parse_anm(data, game)
    except Exception: return None
    for e in ents:
        t, h = e.get('thtx'), e['header']
        if t and 4 * (t['width'] + h['offset_x']) * (t['height'] + h['offset_y']) > crash.MEM_BASE // 3: return 'output-image-dimensions'
    return None

IMGSRC_TEXT = 'entry { path: "subdir/file0.png", has_data: true, sprites: {} }\nentry { path: "a.png", has_data: true, sprites: {} }\n'

def run_one(ctx, entry, data, tool, game, msg_mode, cmd, cls, mut=None):
    r = ctx.rng
    name = 'input.%s' % tool
    src = ctx.write(name, data)
    job = {'tool': tool, 'cmd': cmd, 'game': game, 'in': src}
    if msg_mode: job['msg_mode'] = msg_mode
    outdir = None
    input_id = None
    if cmd == 'imgsrc':
        # the binary is read as an *image source* of a compilation (`truanm compile -i FILE`): a third reader entry point
        job = {'tool': 'anm', 'cmd': 'compile', 'game': game, 'in': ctx.write('imgsrc.spec', IMGSRC_TEXT), 'out': os.path.join(ctx.dir, 'imgsrc.out'), 'images': [src]}
    elif cmd == 'decompile':
        job['out'] = os.path.join(ctx.dir, 'out.txt')
        job['dopts'] = {k: False for k in OPTS if r.chance(0.25)}
        job['width'] = r.pick([1, 20, 80, 100, 200])
    else:
        input_id = output_image_tag(data, game)
        outdir = os.path.join(ctx.dir, 'extract'); shutil.rmtree(outdir, ignore_errors=True)
        job['out'] = outdir
    resp = ctx.cli(job)
    ctx.evaluations += 1
    replay = {'job': dict(job, **{'in': name, 'out': 'out'}), 'entry_point': cmd, 'data_hex': data.hex() if len(data) <= 200000 else data[:200000].hex(), 'class': cls,
              'origin': entry['name'], 'mutation': mut}
    v = crash.judge_exec(ctx, 'C16', job, resp, len(data), '%s %s -g %s (%s of %s)' % (core.TOOLBIN[tool], cmd, game, cls, entry['name']), replay,
                         require_file_named=[name] + ([os.path.basename(outdir) + '/'] if outdir else []) + (['subdir/file0.png', 'a.png'] if cmd == 'imgsrc' else []), input_id=input_id)
    if outdir: shutil.rmtree(outdir, ignore_errors=True)
    ctx.count('verdict_' + v)
    ctx.seen('entry_points', '%s-%s%s' % (tool, cmd, '-' + msg_mode if msg_mode else ''))
    ctx.seen('games', game)
    if cmd == 'extract': ctx.count('extract_runs')
    if cmd == 'imgsrc': ctx.count('image_source_runs')
    if cls == 'pristine':
        ctx.count('pristine_ok' if v == 'ok' else 'pristine_not_ok')
        if v != 'ok': ctx.seen('pristine_failures', '%s: %s' % (entry['name'], core.norm_msg(core.headline(resp.get('diag', '')))[:80]))
    else:
        ctx.count('mutants')
        if v == 'err': ctx.count('mutants_rejected_with_diagnostic')
        if v == 'ok': ctx.count('mutants_accepted')
        ctx.fp(hash(data), tool, game, cmd)
    if v == 'violation' or ctx.evaluations % 100 == 0:
        crash.cross_check_cli(ctx, job, resp, ctx.profile)
    ctx.sample({'class': cls, 'origin': entry['name'], 'tool': tool, 'game': game, 'cmd': cmd, 'mutation': mut, 'size': len(data), 'ok': resp.get('ok'), 'diag': (resp.get('diag') or '')[:160]}, cap=3)
    return v

def run_shard(ctx):
    r = ctx.rng
    tables = formats.SigTables(ctx)
    n = SIZES[ctx.tier] // ctx.nshards + 1
    q = ctx.tier == 'quick'
    corp = corpus.bundled() + corpus.compile_generated(ctx, tables, 30 if q else 150)
    # binaries the generic generators do not produce: ANM files with embedded textures (what extract and image sources read)
    # and modern (TH10+) ECL files
    corp += corpus.compile_generated(ctx, tables, 6 if q else 30, kinds=['anmtex'], weights={'anmtex': 1})
    corp += corpus.compile_generated(ctx, tables, 6 if q else 30, kinds=['ecl10'], weights={'ecl10': 1})
    for e in corp:
        e['fields'], e['regions'] = FM.field_map(e['tool'], e['game'], e['msg_mode'], e['data'])
        ctx.count('field_map_fields', len(e['fields']))
        if e['tool'] == 'anm' and b'THTX' in e['data']: ctx.count('corpus_anm_with_texture')
        if e['tool'] == 'ecl' and e['data'][:4] == b'SCPT': ctx.count('corpus_modern_ecl')
    # pristine files first
    for i, e in enumerate(corp):
        if i % ctx.nshards == ctx.shard or e['origin'] == 'compiled':
            run_one(ctx, e, e['data'], e['tool'], e['game'], e['msg_mode'], 'decompile', 'pristine')
            if e['tool'] == 'anm': run_one(ctx, e, e['data'], 'anm', e['game'], None, 'extract', 'pristine')
    done = 0
    def cmd_for(e):
        if e['tool'] != 'anm': return 'decompile'
        tex = b'THTX' in e['data']
        return r.wpick([('extract', 5 if tex else 2), ('imgsrc', 3 if tex else 1), ('decompile', 4 if tex else 8)])
    # directed: the one recorded cause of unbounded memory in extract (image offsets of a textured v7+ entry), so that the known finding
    # is observed deterministically and anything else stays new
    for i, e in enumerate([e for e in corp if e['tool'] == 'anm' and b'THTX' in e['data'] and formats.game_ge(e['game'], 'th11')][:4]):
        if i % ctx.nshards != ctx.shard % 4 or ctx.shard >= 4: continue
        d = bytearray(e['data']); d[20:24] = (3600).to_bytes(2, 'little') * 2
        run_one(ctx, e, bytes(d), 'anm', e['game'], None, 'extract', 'mutant', {'kind': 'directed-image-offsets', 'offset_x': 3600, 'offset_y': 3600})
    # directed: every argument word of every instruction of the modern-ECL files (the only format with length-prefixed strings inside
    # argument blobs) set to a value just past / far past what is left of the blob
    jobs = []; first = []
    for e in [e for e in corp if e['tool'] == 'ecl' and e['data'][:4] == b'SCPT']:
        for (pos, ln) in e['regions']:
            for wq in range(pos, pos + ln - 3, 4):
                left = pos + ln - wq - 4
                cur = int.from_bytes(e['data'][wq:wq + 4], 'little')
                # a word whose value could be a length of what follows it goes first (length prefixes, counts)
                (first if 1 <= cur <= left else jobs).extend((e, wq, v) for v in (left + 1, 0x40, 0x7fffffff))
    cap = 60 if q else 500            # per shard (each shard generates its own corpus)
    if len(first) > 2 * cap: first = r.sample(first, 2 * cap)
    if len(jobs) > cap: jobs = r.sample(jobs, cap)
    jobs = first + jobs
    for i, (e, q2, v) in enumerate(jobs):
        d = bytearray(e['data']); old = int.from_bytes(d[q2:q2 + 4], 'little'); d[q2:q2 + 4] = v.to_bytes(4, 'little')
        run_one(ctx, e, bytes(d), 'ecl', e['game'], None, 'decompile', 'mutant', {'kind': 'directed-argword', 'pos': q2, 'old': old, 'new': v}); ctx.count('argword_mutants')
    while done < n:
        e = r.pick(corp)
        data = e['data']
        tool, game, msg_mode = e['tool'], e['game'], e['msg_mode']
        k = r.wpick([('field', 10), ('field2', 3), ('region', 2), ('argword', 3), ('mutate', 4), ('truncate-sweep', 0.6), ('truncate-fields', 0.6), ('cross-game', 1.5), ('double', 1)])
        if k in ('field', 'field2', 'region', 'argword') and not e['fields']: k = 'mutate'
        if k in ('region', 'argword') and not e['regions']: k = 'field'
        if k == 'truncate-sweep':
            step = max(1, len(data) // 40)
            for cut in range(0, len(data), step):
                run_one(ctx, e, data[:cut], tool, game, msg_mode, 'decompile', 'truncated', {'cut': cut}); done += 1
            continue
        if k == 'truncate-fields':
            pts = FM.truncate_points(e['fields'], e['regions'], len(data))
            for cut in (pts if len(pts) <= 60 else sorted(r.sample(pts, 60))):
                run_one(ctx, e, data[:cut], tool, game, msg_mode, cmd_for(e), 'truncated-at-field', {'cut': cut}); done += 1
            continue
        if k == 'cross-game':
            games = {'anm': formats.ANM_GAMES, 'std': formats.STD_GAMES, 'msg': formats.MSG_GAMES, 'ecl': formats.ECL_GAMES + formats.ECL10_GAMES}[tool]
            if msg_mode == 'mission': games = formats.MISSION_GAMES
            if msg_mode == 'ending': games = formats.END_GAMES
            g2 = r.pick(games)
            run_one(ctx, e, data, tool, g2, msg_mode, 'decompile', 'cross-game', {'as': g2}); done += 1
            if tool == 'anm' and r.chance(0.3): run_one(ctx, e, data, tool, g2, None, 'extract', 'cross-game', {'as': g2}); done += 1
            continue
        if k == 'field':
            m, mut = FM.mutate_field(r, data, e['fields']); ctx.count('field_mutants')
        elif k == 'field2':
            m, mut = FM.mutate_field(r, data, e['fields']); m, mut2 = FM.mutate_field(r, m, e['fields']); mut = [mut, mut2]; ctx.count('field_mutants')
        elif k == 'region':
            m, mut = FM.mutate_region(r, data, e['regions']); ctx.count('region_mutants')
        elif k == 'argword':
            m, mut = FM.mutate_argword(r, data, e['regions']); ctx.count('argword_mutants')
        else:
            m, kind, pos = mutate.mutate_bytes(r, data)
            if k == 'double': m, kind2, pos2 = mutate.mutate_bytes(r, m); kind = kind + '+' + kind2
            mut = {'kind': kind, 'pos': pos}
        run_one(ctx, e, m, tool, game, msg_mode, cmd_for(e), 'mutant', mut); done += 1

def replay(path):
    rec = json.load(open(path))
    import tempfile
    d = tempfile.mkdtemp(prefix='replay-')
    try:
        job = dict(rec['job'])
        inp = os.path.join(d, job['in']); open(inp, 'wb').write(bytes.fromhex(rec['data_hex']))
        job['in'] = inp; job['out'] = os.path.join(d, 'out')
        if rec.get('entry_point') == 'imgsrc':
            spec = os.path.join(d, 'imgsrc.spec'); open(spec, 'w').write(IMGSRC_TEXT)
            job['in'] = spec; job['images'] = [inp]
        rc, out, err = core.run_vtruth(core.job_argv(job), rec.get('profile', 'dev'))
        print('argv:', ' '.join(core.job_argv(job))); print('exit status:', rc); print(err[-3000:])
        bad = rc not in (0, 1) or (rc == 0) == core.has_error_diag(err)
        if bad: print('VIOLATION property=C16 replay=%s' % path)
        return 1 if bad else 0
    finally:
        shutil.rmtree(d, ignore_errors=True)
