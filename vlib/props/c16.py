"""C16 - any binary input ends in success or a diagnostic, never a crash."""
import json, os, shutil
from .. import core, formats, mutate, crash, corpus

META = {
    'level': 'exploration',
    'rule': 'corpus = 30 bundled binaries + binaries compiled from generated sources (all formats/games); each is fed unmodified, truncated, byte/word/dword-mutated '
            '(extreme values at aligned positions hit sizes, counts, offsets, jump targets, register ids, string bytes, magic) and cross-game to decompile (random option subsets, '
            'widths) and to `truanm extract`; observed: worker death, panic site, CPU seconds, peak allocation, Result vs diagnostics, file named in the error. '
            'distinct = hash(mutated bytes, tool, game, entry point); non-trivial = input differs from a pristine corpus file',
    'assumptions': ['memory bound: peak allocation <= 64 MiB + 4096 x input size', '"hangs" restated as > 20 CPU-seconds per input'],
    'floors': {'pristine_ok': 10, 'mutants': 300, 'mutants_rejected_with_diagnostic': 30, 'extract_runs': 20},
    'profiles': {'quick': ('dev',), 'thorough': ('dev', 'release')},
}
SIZES = {'quick': 16000, 'thorough': 200000}
OPTS = ['blocks', 'intrinsics', 'arguments', 'diff_switches', 'calls']

def run_one(ctx, entry, data, tool, game, msg_mode, cmd, cls, mut=None):
    r = ctx.rng
    name = 'input.%s' % tool
    src = ctx.write(name, data)
    job = {'tool': tool, 'cmd': cmd, 'game': game, 'in': src}
    if msg_mode: job['msg_mode'] = msg_mode
    outdir = None
    if cmd == 'decompile':
        job['out'] = os.path.join(ctx.dir, 'out.txt')
        job['dopts'] = {k: False for k in OPTS if r.chance(0.25)}
        job['width'] = r.pick([1, 20, 80, 100, 200])
    else:
        outdir = os.path.join(ctx.dir, 'extract'); shutil.rmtree(outdir, ignore_errors=True)
        job['out'] = outdir
    resp = ctx.cli(job)
    ctx.evaluations += 1
    replay = {'job': dict(job, **{'in': name, 'out': 'out'}), 'data_hex': data.hex() if len(data) <= 200000 else data[:200000].hex(), 'class': cls,
              'origin': entry['name'], 'mutation': mut}
    v = crash.judge_exec(ctx, 'C16', job, resp, len(data), '%s %s -g %s (%s of %s)' % (core.TOOLBIN[tool], cmd, game, cls, entry['name']), replay, require_file_named=[name] + ([os.path.basename(outdir) + '/'] if outdir else []))
    if outdir: shutil.rmtree(outdir, ignore_errors=True)
    ctx.count('verdict_' + v)
    ctx.seen('entry_points', '%s-%s%s' % (tool, cmd, '-' + msg_mode if msg_mode else ''))
    ctx.seen('games', game)
    if cmd == 'extract': ctx.count('extract_runs')
    if cls == 'pristine':
        ctx.count('pristine_ok' if v == 'ok' else 'pristine_not_ok')
        if v != 'ok': ctx.seen('pristine_failures', '%s: %s' % (entry['name'], core.norm_msg(core.headline(resp.get('diag', '')))[:80]))
    else:
        ctx.count('mutants')
        if v == 'err': ctx.count('mutants_rejected_with_diagnostic')
        if v == 'ok': ctx.count('mutants_accepted')
        ctx.fp(hash(data), tool, game, cmd)
    if v == 'violation' or ctx.evaluations % 100 == 0:
        crash.cross_check_cli(ctx, job, resp, ctx.profile)
    ctx.sample({'class': cls, 'origin': entry['name'], 'tool': tool, 'game': game, 'cmd': cmd, 'mutation': mut, 'size': len(data), 'ok': resp.get('ok'), 'diag': (resp.get('diag') or '')[:160]}, cap=3)
    return v

def run_shard(ctx):
    r = ctx.rng
    tables = formats.SigTables(ctx)
    n = SIZES[ctx.tier] // ctx.nshards + 1
    corp = corpus.bundled() + corpus.compile_generated(ctx, tables, 30 if ctx.tier == 'quick' else 150)
    # pristine files first
    for i, e in enumerate(corp):
        if i % ctx.nshards == ctx.shard or e['origin'] == 'compiled':
            run_one(ctx, e, e['data'], e['tool'], e['game'], e['msg_mode'], 'decompile', 'pristine')
            if e['tool'] == 'anm': run_one(ctx, e, e['data'], 'anm', e['game'], None, 'extract', 'pristine')
    done = 0
    while done < n:
        e = r.pick(corp)
        data = e['data']
        tool, game, msg_mode = e['tool'], e['game'], e['msg_mode']
        k = r.wpick([('mutate', 10), ('truncate-sweep', 1), ('cross-game', 1.5), ('double', 2)])
        if k == 'truncate-sweep':
            step = max(1, len(data) // 40)
            for cut in range(0, len(data), step):
                run_one(ctx, e, data[:cut], tool, game, msg_mode, 'decompile', 'truncated', {'cut': cut}); done += 1
            continue
        if k == 'cross-game':
            games = {'anm': formats.ANM_GAMES, 'std': formats.STD_GAMES, 'msg': formats.MSG_GAMES, 'ecl': formats.ECL_GAMES}[tool]
            if msg_mode == 'mission': games = formats.MISSION_GAMES
            if msg_mode == 'ending': games = formats.END_GAMES
            g2 = r.pick(games)
            run_one(ctx, e, data, tool, g2, msg_mode, 'decompile', 'cross-game', {'as': g2}); done += 1
            if tool == 'anm' and r.chance(0.3): run_one(ctx, e, data, tool, g2, None, 'extract', 'cross-game', {'as': g2}); done += 1
            continue
        m, kind, pos = mutate.mutate_bytes(r, data)
        if k == 'double': m, kind2, pos2 = mutate.mutate_bytes(r, m); kind = kind + '+' + kind2
        cmd = 'extract' if (tool == 'anm' and r.chance(0.25)) else 'decompile'
        run_one(ctx, e, m, tool, game, msg_mode, cmd, 'mutant', {'kind': kind, 'pos': pos}); done += 1

def replay(path):
    rec = json.load(open(path))
    import tempfile
    d = tempfile.mkdtemp(prefix='replay-')
    try:
        job = dict(rec['job'])
        inp = os.path.join(d, job['in']); open(inp, 'wb').write(bytes.fromhex(rec['data_hex']))
        job['in'] = inp; job['out'] = os.path.join(d, 'out')
        rc, out, err = core.run_vtruth(core.job_argv(job), rec.get('profile', 'dev'))
        print('argv:', ' '.join(core.job_argv(job))); print('exit status:', rc); print(err[-3000:])
        bad = rc not in (0, 1) or (rc == 0) == core.has_error_diag(err)
        if bad: print('VIOLATION property=C16 replay=%s' % path)
        return 1 if bad else 0
    finally:
        shutil.rmtree(d, ignore_errors=True)
