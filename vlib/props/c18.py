"""C18 - debug info describes the file that was actually written."""
import json, os, math, struct
from .. import core, formats, layout as L, argcodec as AC
from ..models import eval as E
from ..models.eval import INT, FLOAT
from .c11 import TreeGen, model
from .c13 import Seq

META = {
    'level': 'exploration',
    'rule': '(a) generated files of ANM, STD, MSG, END and old ECL (variable-size instructions: strings, furigana quirk; per-difficulty replication; temporaries) are compiled with --output-debug-info; '
            'for every exported script the instruction offsets, end offset and label offsets in the JSON are compared with offsets recomputed from the written binary by an independent layout parser; '
            '(b) label sequences with the C13 time model: every label offset must be an instruction boundary with the model time; (c) every local is used in a marker instruction and its bound-to register '
            'must be the register encoded in that instruction; (d) const items with constant expressions: consts[].value must equal the independent evaluator. '
            'distinct = hash(source text); non-trivial = script with >= 3 instructions',
    'assumptions': ['only finite constant values are judged (JSON cannot carry NaN / infinity)'],
    'floors': {'furigana_scripts': 20, 'scripts_offsets_matched': 200, 'labels_checked': 100, 'locals_checked': 100, 'consts_checked': 100, 'formats': 4},
}
SIZES = {'quick': 2700, 'thorough': 30000}

def binary_scripts(data, tool, game, msg_mode=None):
    """list of (key, instrs, length) in the order debug info indexes them"""
    if tool == 'anm':
        out = []
        for e in L.parse_anm(data, game):
            for s in e['scripts']: out.append(s['instrs'])
        return {'anm-script': out}
    if tool == 'std': return {'std-script': [L.parse_std(data, game)['script']]}
    if tool == 'ecl':
        p = L.parse_ecl06(data, game)
        # (timelines are exported as `scl-script`; position in the file = running timeline index for sources without explicit indices)
        return {'olde-ecl-sub': [s['instrs'] for s in p['subs']], 'scl-script': [t['instrs'] for t in p['timelines']]}
    if tool == 'msg':
        m = L.parse_msg(data, game)
        return {'msg-script': m}
    return {}

def check_offsets(ctx, dbg, data, gf, replay):
    bs = binary_scripts(data, gf.tool, gf.game)
    n_ok = 0
    for sc in dbg['exported-scripts']:
        ea = sc['exported-as']; ty = ea['type']
        if ty == 'msg-script':
            m = bs.get('msg-script')
            if not m or not ea['indices']: continue
            off = m['table'][ea['indices'][0]][0]
            instrs = m['scripts'].get(off)
            if instrs is None: ctx.violation('debuginfo:script-missing:msg', 'table index %s points to offset %d with no script' % (ea['indices'], off), replay); return False
            if any(m['table'][i][0] != off for i in ea['indices']):
                ctx.violation('debuginfo:msg-indices', 'indices %s do not all point to one script' % ea['indices'], replay); return False
        elif ty in bs:
            lst = bs[ty]
            if ty == 'scl-script':
                if len([x for x in dbg['exported-scripts'] if x['exported-as']['type'] == 'scl-script']) != len(lst): continue
                ctx.count('timelines_checked')
            if ea.get('index', 0) >= len(lst): ctx.violation('debuginfo:script-missing:%s' % ty, 'index %s of %d' % (ea.get('index'), len(lst)), replay); return False
            instrs = lst[ea.get('index', 0)]
        else:
            continue
        if ty == 'msg-script' and len(instrs) > len(sc['instrs']) and (instrs[len(sc['instrs'])].time, instrs[len(sc['instrs'])].opcode, len(instrs[len(sc['instrs'])].blob)) == (0, 0, 0):
            # an MSG script ends with an all-zero item, which looks like an instruction whenever more data follows (the end markers of this
            # and of following empty scripts, or a following script that no table entry points to): the layout cannot tell them apart, so
            # what follows the all-zero item right after the instructions the debug info lists is not part of this script
            instrs = instrs[:len(sc['instrs'])]; ctx.count('msg_trailing_terminators_trimmed')
        want = [i.offset for i in instrs]
        got = [i['offset'] for i in sc['instrs']]
        end = (instrs[-1].offset + instrs[-1].size) if instrs else 0
        if got != want:
            k = next((j for j in range(min(len(got), len(want))) if got[j] != want[j]), min(len(got), len(want)))
            ctx.violation('debuginfo:instr-offset:%s' % ty, 'script %s: debug info says instruction %d starts at %s, the file has it at %s (%d vs %d instructions)' % (
                sc.get('name'), k, got[k] if k < len(got) else None, want[k] if k < len(want) else None, len(got), len(want)), replay); return False
        if sc['end-offset'] != end:
            ctx.violation('debuginfo:end-offset:%s' % ty, 'script %s: end-offset %d, instructions end at %d' % (sc.get('name'), sc['end-offset'], end), replay); return False
        bounds = set(want) | {end}
        for lb in sc['labels']:
            if lb['offset'] not in bounds:
                ctx.violation('debuginfo:label-offset:%s' % ty, 'label %s at offset %d is not an instruction boundary' % (lb['name'], lb['offset']), replay); return False
            ctx.count('labels_on_boundaries')
        n_ok += 1
        if len(want) >= 3: ctx.fp('off', gf.tool, gf.game, tuple(want))
    ctx.count('scripts_offsets_matched', n_ok)
    return True

def compile_with_debug(ctx, tool, game, text, maps=(), msg_mode=None):
    src = ctx.write('c18.txt', text); out = os.path.join(ctx.dir, 'c18.bin'); dj = os.path.join(ctx.dir, 'c18.json')
    for p in (out, dj):
        if os.path.exists(p): os.unlink(p)
    job = {'tool': tool, 'cmd': 'compile', 'game': game, 'in': src, 'out': out, 'maps': list(maps), 'debug_info': dj}
    if msg_mode: job['msg_mode'] = msg_mode
    c = ctx.cli(job)
    if 'panic' in c or 'abort' in c: return c, None, None
    if not c.get('ok'): return c, None, None
    try: dbg = json.loads(ctx.read(dj) or b'null')
    except Exception as e: dbg = {'_error': str(e)}
    return c, ctx.read(out), dbg

import re
def offsets_case(ctx, r, tables):
    gf = formats.gen_any(r, tables, kinds=['anm', 'std', 'msg', 'end', 'ecl'])
    if gf.tool == 'msg':
        # a script that no table entry references cannot be delimited in the binary by the layout parser: skip such files
        defined = set(re.findall(r'^script (\w+) ', gf.text, re.M)); used = set(re.findall(r'script: "(\w+)"', gf.text))
        if defined - used: return
    c, data, dbg = compile_with_debug(ctx, gf.tool, gf.game, gf.text, msg_mode=gf.msg_mode)
    ctx.evaluations += 1
    replay = {'text': gf.text, 'tool': gf.tool, 'game': gf.game}
    if data is None:
        if 'panic' in c: ctx.inconcl('compile crash (C04)')
        else: ctx.count('rejected')
        return
    if not dbg or '_error' in dbg:
        ctx.violation('debuginfo:unreadable-json', str(dbg)[:200], replay); return
    try:
        if check_offsets(ctx, dbg, data, gf, replay): ctx.seen('formats', '%s:%s' % (gf.kind, gf.game))
    except L.LayoutError as e:
        ctx.violation('debuginfo:unparsable-output', str(e), replay)
    ctx.sample({'format': gf.kind + ':' + gf.game, 'scripts': len(dbg['exported-scripts']), 'instr_offsets': [i['offset'] for i in dbg['exported-scripts'][0]['instrs']][:12] if dbg['exported-scripts'] else []}, cap=2)

def furigana_case(ctx, r):
    """TH12+ MSG: a furigana line (`|...`) leaves bytes behind in the next text instruction (documented quirk), so instruction sizes depend
    on the previous string; offsets in the debug info must still be those of the written file."""
    class GF: pass
    gf = GF(); gf.tool, gf.kind, gf.msg_mode = 'msg', 'msg', None
    gf.game = r.pick(['th12', 'th13', 'th14', 'th15', 'th16', 'th17'])
    # one to three scripts; a script may *end* on a furigana line, so that the pending bytes would have to cross into the next script
    nscripts = r.randint(1, 3)
    scripts = []
    for sidx in range(nscripts):
        lines = []
        for k in range(r.randint(2, 8)):
            if r.chance(0.25): lines.append('+%d:' % r.randint(1, 30))
            if r.chance(0.25): lines.append('lab%d_%d:' % (sidx, k))
            if r.chance(0.15): lines.append('ins_%d();' % r.pick([1, 2, 3]))
            txt = ''.join(r.pick('abcdefghijklmno ') for _ in range(r.randint(0, 24)))
            if r.chance(0.45): txt = '|' + r.pick(['0,6,', '1,2,', '']) + ''.join(r.pick('abcdefghij') for _ in range(r.randint(1, 40)))
            lines.append('ins_%d("%s");' % (r.pick([15, 16, 17]), txt))
        if r.chance(0.5): lines.append('ins_%d("|%s");' % (r.pick([15, 16, 17]), ''.join(r.pick('abcdefghij') for _ in range(r.randint(1, 30)))))   # ends on furigana
        if r.chance(0.5): lines.append('lab_end%d:' % sidx); lines.append('ins_0();')
        scripts.append('script s%d {\n%s\n}\n' % (sidx, '\n'.join(lines)))
    gf.text = 'meta { table: {%s} }\n%s' % (', '.join('%d: {script: "s%d"}' % (i, i) for i in range(nscripts)), ''.join(scripts))
    c, data, dbg = compile_with_debug(ctx, gf.tool, gf.game, gf.text)
    ctx.evaluations += 1
    replay = {'text': gf.text, 'tool': gf.tool, 'game': gf.game}
    if data is None:
        if 'panic' in c: ctx.inconcl('compile crash (C04)')
        else: ctx.count('rejected'); ctx.seen('furigana_reject_reasons', core.norm_msg(core.headline(c.get('diag', '')))[:60])
        return
    if not dbg or '_error' in dbg: ctx.violation('debuginfo:unreadable-json', str(dbg)[:200], replay); return
    try:
        if check_offsets(ctx, dbg, data, gf, replay): ctx.count('furigana_scripts')
    except L.LayoutError as e:
        ctx.violation('debuginfo:unparsable-output', str(e), replay)

def labels_case(ctx, r):
    tool, game, bits = r.pick([('anm', 'th12', 16), ('ecl', 'th07', 32), ('std', 'th12', 32), ('msg', 'th08', 16), ('anm', 'th08', 16)])
    opc = 90 if tool == 'msg' else 900
    sq = Seq(r, bits, 'full' if tool in ('anm', 'ecl') else None)
    labels = {}
    def gen(n):
        for _ in range(n):
            k = r.wpick([('label', 3), ('marker', 4), ('named', 2.5), ('block', 0.6)])
            if k == 'label': sq.label()
            elif k == 'marker': sq.marker()
            elif k == 'named':
                nm = 'lab%d' % len(labels); labels[nm] = (sq.t, len(sq.markers)); sq.lines.append('%s:' % nm)
            else:
                sq.lines.append('{'); gen(r.randint(1, 3)); sq.lines.append('}')
    gen(r.randint(3, 12))
    if sq.out_of_range or not labels: return
    body = '\n'.join(sq.lines).replace('ins_900(', 'ins_%d(' % opc)
    # keep every label alive with a jump from the top (ANM/ECL/STD); MSG has no jumps
    text = AC.skeleton(tool, game, body)
    mp = ctx.write('c18.map', '%s\n!ins_signatures\n%d S\n' % (AC.MAGIC[tool], opc))
    c, data, dbg = compile_with_debug(ctx, tool, game, text, maps=[mp])
    ctx.evaluations += 1
    replay = {'text': text, 'tool': tool, 'game': game, 'labels': labels}
    if data is None or not dbg or '_error' in dbg:
        ctx.count('rejected'); return
    sc = main_script(dbg)
    class G: pass
    g = G(); g.tool, g.game = tool, game
    try:
        if not check_offsets(ctx, dbg, data, g, replay): return
        marker_offsets = [i.offset for i in (AC_scripts(data, tool, game)) if i.opcode == opc]
        end = sc['end-offset']
    except L.LayoutError as e:
        ctx.violation('debuginfo:unparsable-output', str(e), replay); return
    dl = {l['name']: l for l in sc['labels']}
    for nm, (t, nmark_before) in labels.items():
        if nm not in dl:
            ctx.violation('debuginfo:label-missing', 'label %s is not in the debug info' % nm, replay); return
        if dl[nm]['time'] != t:
            ctx.violation('debuginfo:label-time', 'label %s: debug info time %d, label rules give %d' % (nm, dl[nm]['time'], t), replay); return
        # the label sits right before the (nmark_before+1)-th marker: its offset is that marker's offset (or the end)
        want = marker_offsets[nmark_before] if nmark_before < len(marker_offsets) else None
        if want is not None and not (dl[nm]['offset'] <= want):
            ctx.violation('debuginfo:label-offset-order', 'label %s at %d lies after the marker that follows it (%d)' % (nm, dl[nm]['offset'], want), replay); return
        prev = marker_offsets[nmark_before - 1] if nmark_before > 0 else -1
        if not (dl[nm]['offset'] > prev):
            ctx.violation('debuginfo:label-offset-order', 'label %s at %d lies before the marker that precedes it (%d)' % (nm, dl[nm]['offset'], prev), replay); return
        ctx.count('labels_checked')
    ctx.fp('lab', text)

def main_script(dbg):
    """the script/sub the harness wrote its statements into (not an ECL timeline)"""
    for sc in dbg['exported-scripts']:
        if sc['exported-as']['type'] != 'scl-script' and sc.get('name') in ('s', 'sub0', 'main'): return sc
    return dbg['exported-scripts'][0]

def AC_scripts(data, tool, game):
    if tool == 'anm': return [i for e in L.parse_anm(data, game) for s in e['scripts'] for i in s['instrs']]
    if tool == 'ecl': return [i for s in L.parse_ecl06(data, game)['subs'] for i in s['instrs']]
    if tool == 'std': return L.parse_std(data, game)['script']
    if tool == 'msg': return [i for off, ins in sorted(L.parse_msg(data, game)['scripts'].items()) for i in ins]
    return []

def locals_case(ctx, r):
    tool, game = r.pick([('anm', 'th12'), ('anm', 'th08'), ('ecl', 'th07'), ('ecl', 'th06'), ('ecl', 'th095'), ('anm', 'th17')])
    lines, want = [], {}
    nloc = [0]
    def gen(depth, n):
        for _ in range(n):
            k = r.wpick([('decl', 4), ('block', 1 if depth < 2 else 0), ('times', 0.5 if depth < 2 else 0)])
            if k == 'decl':
                ty = r.pick(['int', 'float'])
                if tool == 'ecl' and game == 'th06' and ty == 'float' and False: ty = 'int'
                nloc[0] += 1; nm = 'loc%d' % nloc[0]
                lines.append('%s %s = %s;' % (ty, nm, '%d' % r.randint(0, 9) if ty == 'int' else '%d.5' % r.randint(0, 9)))
                mk = 1000 + nloc[0]
                lines.append('ins_%d(%d, %s);' % (900 if ty == 'int' else 901, mk, nm))
                want[nm] = (mk, ty)
            elif k == 'block':
                lines.append('{'); gen(depth + 1, r.randint(1, 3)); lines.append('}')
            else:
                lines.append('times(2) {'); gen(depth + 1, r.randint(1, 2)); lines.append('}')
    gen(0, r.randint(1, 5))
    if not want: return
    text = AC.skeleton(tool, game, '\n'.join(lines))
    mp = ctx.write('c18.map', '%s\n!ins_signatures\n900 SS\n901 Sf\n' % AC.MAGIC[tool])
    c, data, dbg = compile_with_debug(ctx, tool, game, text, maps=[mp])
    ctx.evaluations += 1
    replay = {'text': text, 'tool': tool, 'game': game}
    if data is None or not dbg or '_error' in dbg:
        ctx.count('rejected'); ctx.seen('locals_reject_reasons', core.norm_msg(core.headline((c or {}).get('diag', '')))[:60]); return
    try: instrs = AC_scripts(data, tool, game)
    except L.LayoutError as e:
        ctx.violation('debuginfo:unparsable-output', str(e), replay); return
    sc = main_script(dbg)
    dl = {}
    for l in sc['locals']: dl.setdefault(l['name'], []).append(l)
    for nm, (mk, ty) in want.items():
        ins = [i for i in instrs if i.opcode in (900, 901) and int.from_bytes(i.blob[:4], 'little', signed=True) == mk]
        if not ins: ctx.violation('debuginfo:marker-missing', 'marker %d not in file' % mk, replay); return
        raw = ins[0].blob[4:8]
        reg = int.from_bytes(raw, 'little', signed=True) if ty == 'int' else int(round(struct.unpack('<f', raw)[0]))
        if nm not in dl:
            ctx.violation('debuginfo:local-missing', 'local %s is not listed' % nm, replay); return
        bound = dl[nm][0]['bound-to'].get('reg')
        if bound != reg:
            ctx.violation('debuginfo:local-register', 'local %s: debug info says register %s, the instruction that uses it encodes register %s' % (nm, bound, reg), replay); return
        if dl[nm][0]['type'] != ty:
            ctx.violation('debuginfo:local-type', 'local %s: type %s, declared %s' % (nm, dl[nm][0]['type'], ty), replay); return
        ctx.count('locals_checked')
    ctx.fp('loc', text)

def consts_case(ctx, r):
    g = TreeGen(r, math_fns=False)
    decls, want = [], {}
    for i in range(r.randint(1, 5)):
        ty = r.pick([INT, FLOAT])
        t = g.tree(ty, r.randint(0, 3))
        res = model(t, {'regs': {}, 'consts': {}})
        if res[0] != 'value': continue
        v = res[1]
        if ty == FLOAT and (v != v or math.isinf(v)): continue
        nm = 'CK%d' % i
        decls.append('const %s %s = %s;' % (ty, nm, E.render(t))); want[nm] = (ty, v)
    if not decls: return
    text = '\n'.join(decls) + '\n' + AC.skeleton('anm', 'th12', 'ins_900(1);')
    mp = ctx.write('c18.map', '!anmmap\n!ins_signatures\n900 S\n')
    c, data, dbg = compile_with_debug(ctx, 'anm', 'th12', text, maps=[mp])
    ctx.evaluations += 1
    replay = {'text': text}
    if data is None or not dbg or '_error' in dbg:
        ctx.count('rejected'); return
    dc = {x['name']: x['value'] for x in dbg['consts']}
    for nm, (ty, v) in want.items():
        if nm not in dc:
            ctx.violation('debuginfo:const-missing', 'const %s is not listed' % nm, replay); return
        got = dc[nm].get('int' if ty == INT else 'float')
        ok = (got == v) if ty == INT else (got is not None and E.f32(got) == v)
        if not ok:
            ctx.violation('debuginfo:const-value', 'const %s: debug info %r, evaluator %r' % (nm, dc[nm], v), replay); return
        ctx.count('consts_checked')
    ctx.fp('const', text)

def run_shard(ctx):
    r = ctx.rng
    tables = formats.SigTables(ctx)
    n = SIZES[ctx.tier] // ctx.nshards + 1
    for i in range(n):
        k = r.wpick([('offsets', 5), ('labels', 2), ('locals', 2), ('consts', 1.5), ('furigana', 1)])
        if k == 'furigana': furigana_case(ctx, r)
        elif k == 'offsets': offsets_case(ctx, r, tables)
        elif k == 'labels': labels_case(ctx, r)
        elif k == 'locals': locals_case(ctx, r)
        else: consts_case(ctx, r)

def replay(path):
    rec = json.load(open(path)); print(rec.get('text')); print({k: v for k, v in rec.items() if k not in ('text',)}); return 0
