"""C02 - compiling expressions and statements preserves what the script does."""
import json
from .. import core, testlang as TL, lowering as LW
from ..gensrc import gen_body

META = {
    'level': 'exploration',
    'rule': 'seeded grammar-generated bodies (typed symbol table) x random intrinsic tables / scratch-pool sizes x N register states x difficulties 0-3; '
            'each body is lowered by the real Lowerer, raised back, and both are run in AstVm; distinct = hash of (statement-shape sequence, feature set, config); '
            'non-trivial = body compiled, has >= 3 statements and at least one (state,difficulty) run was compared',
    'assumptions': ['AstVm (src/vm.rs) is the executable semantics of the source language, as the property itself states',
                    'floats are kept NaN-free; runs where the source side produced NaN or panicked (div by zero, iteration limit) are inconclusive'],
    'floors': {'compiled': 30, 'runs_compared': 200},
}

SIZES = {'quick': 7200, 'thorough': 60000}

def judge(ctx, cfg, body, req, resp, tag='TL'):
    """Returns True if the case counted as an evaluation."""
    if 'abort' in resp or 'inconclusive' in resp:
        ctx.inconcl('worker-' + str(resp.get('abort') or resp.get('inconclusive'))); return False
    if 'panic' in resp:
        ctx.count('compile_panics'); ctx.seen('compile_panic_sites', resp['panic'].get('site'))
        ctx.inconcl('compile-panic (reported by C04)'); return False
    if resp.get('stage') != 'done':
        ctx.count('rejected'); ctx.seen('reject_reasons', core.norm_msg(core.headline(resp.get('diag', ''))) + ' @' + str(resp.get('stage')))
        return False
    if resp.get('diag', '').strip():
        ctx.count('compiled_with_warnings'); return False
    ctx.count('compiled')
    ncmp = 0
    for run in resp['runs']:
        st = run['status']
        if st == 'eq':
            ncmp += 1; ctx.count('runs_compared'); ctx.count('calls_logged', run.get('calls', 0))
            if tag == 'TL' and 'trace' in run: ivm_judge(ctx, cfg, body, req, resp, run)
        elif st in ('src_panic', 'src_nan'):
            ctx.count('runs_source_side_undefined')
        elif st == 'new_panic' and 'not implemented' in (run.get('msg') or ''):
            ctx.count('runs_vm_cannot_execute_lowered_form')   # e.g. undecoded two-part cmp+jmp: AstVm has no offsetof/timeof
        else:
            small = minimise(ctx, req, run)
            detail = run.get('detail') or run.get('msg') or ''
            kind = 'compiled-side-panic' if st == 'new_panic' else detail.split(' ')[0].rstrip(':')
            sig = None
            # if the allocator handed out a register that the source mentions, this is the C05 defect class:
            # classify by the syntactic position of the missed mention rather than by program shape
            problems, allocated, _hz = LW.check_reg_events(cfg, body, resp)
            clobbered = sorted(allocated & set(body.mentioned))
            if clobbered:
                ctxs = set()
                for reg in clobbered: ctxs |= set(body.mention_ctx.get(reg, ['?']))
                sig = 'miscompile:clobbered-mentioned-register:mentioned-in:' + '+'.join(sorted(ctxs))
            if sig is None:
                sig = 'miscompile:%s:%s' % (kind, shape_of(small))
            ctx.violation(sig, '%s: %s' % (st, detail),
                          {'req': dict(req, body=small, states=[req['states'][run['s']]], difficulties=[run['d']],
                                       check_regs=check_regs_for(req, small)),
                           'config': cfg.tag(), 'original_body': req['body'], 'new_text': resp.get('new_text')})
    for f in body.used: ctx.seen('features', f)
    ctx.seen('configs', cfg.tag())
    if ncmp and body.nstmts >= 3:
        ctx.fp(tuple(body.shape), tuple(sorted(body.used)), cfg.tag())
    ctx.evaluations += 1
    ctx.sample({'config': cfg.tag(), 'body': body.text[:600], 'lowered': (resp.get('new_text') or '')[:600], 'runs': len(resp['runs'])}, cap=2)
    return True

def ivm_compare(req, resp, run):
    """Execute the emitted instructions on the independent interpreter and compare with the source-side AstVm trace.
    Returns None (agree), ('unjudged', reason) or ('diff', description)."""
    from .. import ivm
    from ..models import eval as EV
    st = req['states'][run['s']]
    try:
        m = ivm.run(resp['instrs'], req['mapfile'], st['regs'], run['d'])
    except ivm.Unjudged as e:
        return ('unjudged', str(e).split(':')[0][:40])
    tr = run['trace']
    def sv(x): return None if x is None else (('i', x['i']) if 'i' in x else ('f', x['f']))
    want = [(e[0], e[1], [sv(a) for a in e[2]]) for e in tr['log']]
    got = [(rt, op, list(args)) for rt, op, args in m.log]
    if len(want) != len(got): return ('diff', 'log length: source %d, instructions %d' % (len(want), len(got)))
    for i, (w, g) in enumerate(zip(want, got)):
        if w != g: return ('diff', 'log[%d]: source %s, instructions %s' % (i, w, g))
    for r, w in zip(req['check_regs'], tr['regs']):
        g = m.regs.get(r)
        g = None if g is None else (('i', g[1]) if g[0] == 'i' else ('f', EV.bits_of(g[1])))
        if sv(w) != g: return ('diff', 'reg %d: source %s, instructions %s' % (r, sv(w), g))
    return None

def ivm_judge(ctx, cfg, body, req, resp, run):
    r = ivm_compare(req, resp, run)
    if r is None: ctx.count('ivm_runs_agree'); ctx.count('ivm_calls_checked', len(run['trace']['log'])); return
    if r[0] == 'unjudged': ctx.count('ivm_unjudged'); ctx.seen('ivm_unjudged_reasons', r[1]); return
    # the decompiler agrees with the source but the instructions themselves do not: a mistake shared by encoder and decoder
    def fails(text):
        r2 = dict(req, body=text, states=[req['states'][run['s']]], difficulties=[run['d']], check_regs=check_regs_for(req, text))
        resp2 = ctx.call(r2)
        if resp2.get('stage') != 'done' or resp2.get('diag', '').strip(): return False
        return any(x['status'] == 'eq' and 'trace' in x and (ivm_compare(r2, resp2, dict(x, s=0)) or ('',))[0] == 'diff' for x in resp2.get('runs', []))
    small = LW.minimise_lines(req['body'], fails) if hasattr(LW, 'minimise_lines') else req['body']
    ctx.violation('miscompile-ivm:%s:%s' % (r[1].split(' ')[0].rstrip(':'), shape_of(small)), 'source (AstVm) vs emitted instructions (independent interpreter): ' + r[1],
                  {'req': dict(req, body=small, states=[req['states'][run['s']]], difficulties=[run['d']], check_regs=check_regs_for(req, small)),
                   'config': cfg.tag(), 'original_body': req['body'], 'new_text': resp.get('new_text'), 'oracle': 'ivm'})

def check_regs_for(req, text):
    """check list for a (possibly reduced) text: non-scratch registers + registers the text itself mentions."""
    ri, rf = LW.all_regs()
    scratch = set(req['lang']['int_regs']) | set(req['lang']['float_regs'])
    return sorted({r for r in ri + rf if r not in scratch} | (LW.mentioned_in_text(text) & set(ri + rf)))

def still_fails(ctx, req, text, run):
    r2 = dict(req, body=text, states=[req['states'][run['s']]], difficulties=[run['d']], check_regs=check_regs_for(req, text))
    resp = ctx.call(r2)
    if resp.get('stage') != 'done' or resp.get('diag', '').strip(): return False
    return any(x['status'] in ('diff', 'new_panic') for x in resp.get('runs', []))

def minimise(ctx, req, run, max_steps=150):
    """Line-level delta debugging of the body while the disagreement persists."""
    lines = req['body'].split('\n')
    steps = 0
    changed = True
    while changed and steps < max_steps:
        changed = False
        i = 1
        while i < len(lines) - 1 and steps < max_steps:
            cand = lines[:i] + lines[i + 1:]
            steps += 1
            if still_fails(ctx, req, '\n'.join(cand), run):
                lines = cand; changed = True
            else:
                i += 1
    return '\n'.join(lines)

import re
def shape_of(text):
    """Coarse, spelling-independent shape of a minimised body: keywords and operators only."""
    toks = re.findall(r'[A-Za-z_][A-Za-z_0-9]*|[-+*/%<>=!&|^~?:]+|\d+\.\d+|\d+', text)
    out = []
    for t in toks:
        if re.match(r'\d+\.\d+$', t): out.append('F')
        elif re.match(r'\d+$', t): out.append('N')
        elif t in ('if', 'unless', 'else', 'while', 'do', 'times', 'loop', 'break', 'goto', 'int', 'float', 'sin', 'cos', 'sqrt', '_S', '_f'): out.append(t)
        elif re.match(r'[A-Za-z_]', t): out.append('v')
        else: out.append(t)
    s = ' '.join(out)
    return s if len(s) <= 80 else s[:60] + '#%x' % (hash(s) & 0xffff)

def run_shard(ctx):
    n = SIZES[ctx.tier] // ctx.nshards + 1
    nstates = 6 if ctx.tier == 'quick' else 12
    for i in range(n):
        cfg = TL.Config(ctx.rng, pools='large')
        feats = LW.feats_for(cfg, ctx.rng)
        feats.discard('difflabels')
        env = LW.tl_env(cfg, feats, ctx.rng)
        body = None
        if ctx.rng.chance(0.15):
            # directed: one register mentioned once in a chosen context, under register pressure (see lowering.gen_single_mention)
            nm = (lambda x: TL.NAMES[x]) if cfg.aliases else (lambda x: 'REG[%d]' % x)
            si, sf = cfg.scratch()
            body = LW.gen_single_mention(ctx.rng, si, sf, TL.EXTRA_INT[1:] + TL.EXTRA_INT[:1], TL.EXTRA_FLOAT, nm)
            if body is not None: ctx.count('directed_single_mention')
        if body is None and ctx.rng.chance(0.08):
            nm = (lambda x: TL.NAMES[x]) if cfg.aliases else (lambda x: 'REG[%d]' % x)
            body = LW.gen_timed_jump(ctx.rng, nm); ctx.count('directed_timed_jumps')
        if body is None:
            body = gen_body(ctx.rng, env, sentinel='ins_101();', max_depth=ctx.rng.pick([1, 2, 3]), max_stmts=ctx.rng.pick([3, 6, 10]), expr_depth=ctx.rng.pick([1, 2, 3, 4]))
        LW.reconcile_mentions(ctx, body)
        req, resp = LW.run_case(ctx, cfg, body, nstates, presimplify=ctx.rng.chance(0.5))
        judge(ctx, cfg, body, req, resp)

def replay(path):
    rec = json.load(open(path))
    w = core.Worker('dev')
    resp = w.call(rec['req'])
    w.close()
    print(json.dumps(resp, indent=1)[:6000])
    bad = any(x['status'] in ('diff', 'new_panic') for x in resp.get('runs', []))
    for x in resp.get('runs', []):
        if x['status'] == 'eq' and 'trace' in x:
            r = ivm_compare(rec['req'], resp, x)
            print('independent interpreter:', r or 'agrees')
            if r and r[0] == 'diff': bad = True
    if bad: print('VIOLATION property=C02 replay=%s' % path)
    return 1 if bad else 0
