"""C11 - compile-time evaluation agrees with run-time evaluation."""
import json, os, math
from .. import core, testlang as TL
from ..models import eval as E
from ..models.eval import INT, FLOAT

META = {
    'level': 'exploration',
    'rule': 'typed expression trees over every operator with operands from boundary sets (0, +-1, +-2, 31, 32, 33, -32, i32::MIN/MAX, +-0.0, +-inf, f32::MAX, MIN_POSITIVE, random), depth <= 4; '
            'observed: literal produced by const_simplify, values of const items (chains in any order, cycles), AstVm result of e vs const_simplify(e) under register valuations, compiled bytes of '
            '`const X = e; f(X)` vs `f(e)`; all compared with an independent evaluator (vlib/models/eval.py). distinct = hash(tree); non-trivial = tree depth >= 1',
    'assumptions': ['float->int casts outside the i32 range and NaN payloads are not judged', 'transcendental functions are compared with a 2-ulp tolerance'],
    'floors': {'const_folds_checked': 500, 'undefined_diagnosed': 10, 'vm_states_checked': 100, 'const_items_checked': 50, 'inline_vs_named_pairs': 20},
}
SIZES = {'quick': 7500, 'thorough': 60000}

IB = [0, 1, -1, 2, -2, 3, 7, 31, 32, 33, -32, -33, 255, 65535, 65536, 2147483647, -2147483648, -2147483647, 1073741824, 123456789]
FB = [0x00000000, 0x80000000, 0x3f800000, 0xbf800000, 0x40000000, 0x3f000000, 0x7f800000, 0xff800000, 0x7f7fffff, 0xff7fffff, 0x00800000, 0x00000001, 0x4f000000, 0xcf000000, 0x4effffff, 0x3dcccccd, 0x40490fdb]
IBIN = ['+', '-', '*', '/', '%', '&', '|', '^', '<<', '>>', '>>>', '&&', '||', '==', '!=', '<', '<=', '>', '>=']
FBIN = ['+', '-', '*', '/', '%']
FCMP = ['==', '!=', '<', '<=', '>', '>=']

class TreeGen:
    def __init__(self, r, regs=None, consts=None, math_fns=True):
        self.r, self.regs, self.consts, self.math = r, regs or {}, consts or {}, math_fns

    def leaf(self, ty):
        r = self.r
        if self.regs and r.chance(0.35):
            cands = list(self.regs.items())
            rid, rty = r.pick(cands)
            if rty == ty: return ('reg', rid, ty, r.pick(['', '', '$' if ty == INT else '%']))
            return ('reg', rid, ty, '$' if ty == INT else '%')
        cs = [n for n, (t, _) in self.consts.items() if t == ty]
        if cs and r.chance(0.3): return ('const', r.pick(cs), ty, False)
        if ty == INT:
            return ('i', r.pick(IB) if r.chance(0.7) else r.randint(-1000, 1000))
        if r.chance(0.7): return ('f', r.pick(FB))
        return ('f', E.bits_of(E.f32(r.uniform(-100, 100))))

    def tree(self, ty, d):
        r = self.r
        if d <= 0 or r.chance(0.2): return self.leaf(ty)
        if ty == INT:
            k = r.wpick([('bin', 6), ('un', 2), ('cmpf', 1.5), ('tern', 1), ('cast', 1)])
            if k == 'bin': return ('bin', r.pick(IBIN), self.tree(INT, d - 1), self.tree(INT, d - 1))
            if k == 'un': return ('un', r.pick(['-', '!', '~']), self.tree(INT, d - 1))
            if k == 'cmpf': return ('bin', r.pick(FCMP), self.tree(FLOAT, d - 1), self.tree(FLOAT, d - 1))
            if k == 'tern': return ('tern', self.tree(INT, d - 1), self.tree(INT, d - 1), self.tree(INT, d - 1))
            return ('un', 'int', self.tree(FLOAT, d - 1))
        k = r.wpick([('bin', 6), ('neg', 1.5), ('fn', 1.5 if self.math else 0), ('tern', 1), ('cast', 1)])
        if k == 'bin': return ('bin', r.pick(FBIN), self.tree(FLOAT, d - 1), self.tree(FLOAT, d - 1))
        if k == 'neg': return ('un', '-', self.tree(FLOAT, d - 1))
        if k == 'fn': return ('un', r.pick(['sin', 'cos', 'sqrt', 'tan', 'atan', 'asin', 'acos']), self.tree(FLOAT, d - 1))
        if k == 'tern': return ('tern', self.tree(INT, d - 1), self.tree(FLOAT, d - 1), self.tree(FLOAT, d - 1))
        return ('un', 'float', self.tree(INT, d - 1))

def depth(e):
    if e[0] in ('i', 'f', 'reg', 'const'): return 0
    return 1 + max(depth(x) for x in e[1:] if isinstance(x, tuple))

def ops_of(e, out):
    if e[0] in ('un', 'bin'): out.add(e[1])
    if e[0] == 'tern': out.add('?:')
    for x in e[1:]:
        if isinstance(x, tuple): ops_of(x, out)
    return out

def model(e, env):
    try:
        v, ty, ex = E.evaluate(e, env)
        if ex == 'approx':
            # a library function's last bits may differ from the model's; an expression whose value depends on them
            # discontinuously (%, casts, comparisons, cancellation) cannot be judged
            probes = []
            for nudge in (-1, 1):
                try: probes.append(E.evaluate(e, dict(env, nudge=nudge, stack=[])))
                except (E.Undefined, E.Unjudged): return ('unjudged', 'ill-conditioned: defined-ness depends on the last bits of a library function')
            for pv, pty, _ in probes:
                if ty == INT and pv != v: return ('unjudged', 'ill-conditioned: integer result depends on the last bits of a library function')
                if ty != INT and (pv != pv) != (v != v): return ('unjudged', 'ill-conditioned')
                if ty != INT and v == v and not math.isinf(v) and not math.isinf(pv) and abs(pv - v) > 1e-5 * max(1e-30, abs(v)):
                    return ('unjudged', 'ill-conditioned: result amplifies the last bits of a library function')
                if ty != INT and math.isinf(v) != math.isinf(pv): return ('unjudged', 'ill-conditioned')
        return ('value', v, ty, ex)
    except E.Undefined as u: return ('undefined', str(u))
    except E.Unjudged as u: return ('unjudged', str(u))

def same(folded, v, ty, ex):
    """folded: {'i': n} | {'f': bits} from truth; (v, ty, ex) from the model."""
    if folded is None: return False, 'not folded to a literal'
    if ty == INT:
        if 'i' not in folded: return False, 'folded to a non-int %r' % (folded,)
        return folded['i'] == v, 'got %d, model %d' % (folded['i'], v)
    if 'f' not in folded: return False, 'folded to a non-float %r' % (folded,)
    got = E.from_bits(folded['f'])
    if v != v: return got != got, 'got %r, model NaN' % got
    if ex == 'exact':
        return E.bits_of(v) == folded['f'], 'got %r (%#010x), model %r (%#010x)' % (got, folded['f'], v, E.bits_of(v))
    if got != got or math.isinf(got) or math.isinf(v): return (got == v), 'got %r, model %r' % (got, v)
    ulp = abs(folded['f'] - E.bits_of(v)) if (got < 0) == (v < 0) else 99
    return ulp <= 2 or abs(got - v) <= 2e-5 * max(1e-30, abs(v)) or abs(got - v) <= 1e-6, 'got %r, model ~%r' % (got, v)

def lang(): return {'kind': 'test', 'language': 'anm', 'int_regs': [], 'float_regs': [], 'game': 'th10'}
MAPFILE = '!anmmap\n!gvar_types\n' + ''.join('%d $\n' % r for r in range(1000, 1004)) + ''.join('%d %%\n' % r for r in range(1004, 1008)) + '!ins_signatures\n900 S\n901 f\n'
REGS = {1000: INT, 1001: INT, 1002: INT, 1004: FLOAT, 1005: FLOAT}

def fold_case(ctx, r):
    """Pure constant expressions (with const items in random order)."""
    consts = {}
    decls = []
    if r.chance(0.4):
        names = ['K%d' % i for i in range(r.randint(1, 4))]
        tys = {n: r.pick([INT, FLOAT]) for n in names}
        # build a dependency order, then shuffle the declaration order
        order = list(names); r.shuffle(order)
        for i, n in enumerate(order):
            avail = {m: (tys[m], None) for m in order[:i]}
            consts[n] = (tys[n], TreeGen(r, consts=avail).tree(tys[n], r.randint(0, 2)))
        if r.chance(0.12) and len(order) >= 2:
            # close a cycle: the first const now refers to the last one
            a, b = order[0], order[-1]
            consts[a] = (tys[a], ('bin', '+' , ('const', b, tys[b], False), ('i', 1)) if tys[a] == INT and tys[b] == INT else ('const', b, tys[a], tys[a] != tys[b]))
        decl_order = list(names); r.shuffle(decl_order)
        for n in decl_order:
            decls.append('const %s %s = %s;' % (tys[n], n, E.render(consts[n][1])))
    g = TreeGen(r, consts=consts)
    stmts, trees = [], []
    for i in range(r.randint(1, 5)):
        ty = r.pick([INT, FLOAT])
        t = g.tree(ty, r.randint(1, 4))
        trees.append((ty, t))
        stmts.append('REG[%d] = %s;' % (1000 if ty == INT else 1004, E.render(t)))
    # const decls are items: they may come before, between or after the statements
    lines = stmts[:]
    for d in decls: lines.insert(r.randint(0, len(lines)), d)
    body = '{\n' + '\n'.join(lines) + '\n}'
    req = {'op': 'consteval', 'lang': lang(), 'mapfile': MAPFILE, 'body': body, 'states': [], 'check_regs': []}
    resp = ctx.call(req)
    env = {'regs': {}, 'consts': {n: (t, tr) for n, (t, tr) in consts.items()}}
    results = [model(t, env) for _, t in trees]
    const_results = {n: model(('const', n, consts[n][0], False), dict(env, stack=[])) for n in consts}
    any_undef = any(x[0] == 'undefined' for x in results) or any(x[0] == 'undefined' for x in const_results.values())
    replay = {'req': req, 'model': [str(x) for x in results]}
    ctx.evaluations += 1
    if 'panic' in resp:
        ctx.violation('consteval:panic:' + core.panic_sig(resp['panic']), resp['panic']['msg'][:200], replay); return
    if 'abort' in resp or 'inconclusive' in resp: ctx.inconcl('worker'); return
    if resp.get('stage') != 'done':
        diag = resp.get('diag', '')
        if any_undef and core.has_error_diag(diag):
            ctx.count('undefined_diagnosed'); ctx.seen('undefined_kinds', core.norm_msg(core.headline(diag))[:60]); return
        if any(x[0] == 'unjudged' for x in results) or any(x[0] == 'unjudged' for x in const_results.values()): ctx.count('unjudged'); return
        ctx.violation('consteval:rejects-defined:%s' % core.norm_msg(core.headline(diag))[:70], diag[:400], replay); return
    if any_undef:
        which = next((E.render(t) for (_, t), x in zip(trees, results) if x[0] == 'undefined'), 'a const item')
        ctx.violation('consteval:undefined-accepted', 'expression without a defined value was folded without an error: %s' % which[:200], replay); return
    for (ty, t), res, folded in zip(trees, results, resp['folded']):
        if res[0] != 'value': ctx.count('unjudged'); continue
        ok, why = same(folded, res[1], res[2], res[3])
        ctx.count('const_folds_checked')
        for o in ops_of(t, set()): ctx.seen('operators', o)
        if depth(t) >= 1: ctx.fp(repr(t))
        if not ok:
            small = shrink(ctx, ty, t, env)
            ctx.violation('consteval:%s:%s' % (top_op(small), operand_class(small)), '%s: %s' % (E.render(small)[:200], why), dict(replay, expr=E.render(t), minimal=E.render(small)))
    if consts: ctx.count('const_items_checked', len(consts))
    ctx.sample({'body': body[:400], 'folded': resp['folded'][:5]}, cap=2)

def top_op(e): return e[1] if e[0] in ('un', 'bin') else ('?:' if e[0] == 'tern' else e[0])
def operand_class(e):
    cls = []
    for x in e[1:]:
        if isinstance(x, tuple):
            if x[0] == 'i': cls.append('zero' if x[1] == 0 else 'min' if x[1] == -2147483648 else 'neg' if x[1] < 0 else 'big' if x[1] >= 32 else 'pos')
            elif x[0] == 'f':
                v = E.from_bits(x[1]); cls.append('nan' if v != v else 'inf' if math.isinf(v) else 'zero' if v == 0 else 'finite')
            else: cls.append('expr')
    return ','.join(cls)

def shrink(ctx, ty, t, env):
    """Find a smallest failing subtree (each subtree is checked on its own)."""
    best = t
    def subs(e):
        for x in e[1:]:
            if isinstance(x, tuple) and x[0] in ('un', 'bin', 'tern'):
                yield x; yield from subs(x)
    for s in sorted(subs(t), key=lambda e: len(repr(e))):
        try: v, sty, ex = E.evaluate(s, dict(env, stack=[]))
        except Exception: continue
        body = '{\nREG[%d] = %s;\n}' % (1000 if sty == INT else 1004, E.render(s))
        # const references need their items
        body = '{\n' + '\n'.join('const %s %s = %s;' % (ct, n, E.render(ctree)) for n, (ct, ctree) in env['consts'].items()) + body[1:]
        resp = ctx.call({'op': 'consteval', 'lang': lang(), 'mapfile': MAPFILE, 'body': body, 'states': [], 'check_regs': []})
        if resp.get('stage') == 'done' and resp['folded'] and not same(resp['folded'][-1], v, sty, ex)[0]:
            return s
    return best

def vm_case(ctx, r):
    """Partially constant expressions: AstVm(e) vs AstVm(const_simplify(e)) vs the model, under register valuations."""
    g = TreeGen(r, regs=REGS, math_fns=False)
    ty = r.pick([INT, FLOAT])
    t = g.tree(ty, r.randint(1, 4))
    dest = 1003 if ty == INT else 1006
    E.NONFINITE_AS_EXPR = True
    try: body = '{\nREG[%d] = %s;\n}' % (dest, E.render(t))
    finally: E.NONFINITE_AS_EXPR = False
    states, envs = [], []
    for _ in range(6):
        regs, env = {}, {}
        for rid, rty in REGS.items():
            if rty == INT:
                v = r.pick(IB) if r.chance(0.5) else r.randint(-50, 50); regs[str(rid)] = {'i': v}; env[rid] = (v, INT)
            else:
                b = r.pick(FB) if r.chance(0.5) else E.bits_of(E.f32(r.uniform(-10, 10))); regs[str(rid)] = {'f': b}; env[rid] = (E.from_bits(b), FLOAT)
        states.append({'regs': regs}); envs.append(env)
    req = {'op': 'consteval', 'lang': lang(), 'mapfile': MAPFILE, 'body': body, 'states': states, 'check_regs': [dest]}
    resp = ctx.call(req)
    ctx.evaluations += 1
    replay = {'req': req}
    if 'panic' in resp:
        ctx.violation('consteval:panic:' + core.panic_sig(resp['panic']), resp['panic']['msg'][:200], replay); return
    if resp.get('stage') != 'done':
        m = [model(t, {'regs': env, 'consts': {}}) for env in envs]
        if core.has_error_diag(resp.get('diag', '')): ctx.count('vm_case_rejected'); return
        ctx.inconcl('consteval failed without diagnostics'); return
    for env, run in zip(envs, resp['runs']):
        res = model(t, {'regs': env, 'consts': {}})
        o, s = run['orig'], run['simp']
        if 'panic' in o or 'panic' in s:
            if res[0] == 'undefined' and 'panic' in o and 'panic' in s: ctx.count('vm_undefined_both'); continue
            if ('panic' in o) != ('panic' in s):
                ctx.violation('consteval:vm-simplified-differs:panic', 'AstVm(e) %s but AstVm(simplify(e)) %s' % ('panicked' if 'panic' in o else 'ran', 'panicked' if 'panic' in s else 'ran'), replay)
            continue
        if o['regs'] != s['regs']:
            ctx.violation('consteval:vm-simplified-differs:%s' % top_op(t), 'AstVm(e)=%s AstVm(simplify(e))=%s for %s' % (o['regs'], s['regs'], E.render(t)[:150]), replay); continue
        ctx.count('vm_states_checked')
        if res[0] == 'value':
            ok, why = same(o['regs'][0], res[1], res[2], res[3])
            if not ok:
                ctx.violation('consteval:vm-vs-model:%s:%s' % (top_op(t), operand_class(t)), '%s: %s' % (E.render(t)[:200], why), replay)
    if depth(t) >= 1: ctx.fp('vm', repr(t))

ANM_HEAD = 'entry { path: "a.png", has_data: false, img_width: 64, img_height: 64, img_format: 3, sprites: {} }\n'

def inline_case(ctx, r):
    """`const X = e; f(X)` must compile to the same bytes as `f(e)`."""
    g = TreeGen(r, math_fns=False)
    ty = r.pick([INT, FLOAT])
    t = g.tree(ty, r.randint(1, 3))
    if model(t, {'regs': {}, 'consts': {}})[0] != 'value': return
    call = 'ins_%d' % (900 if ty == INT else 901)
    a = ANM_HEAD + 'script s {\n %s(%s);\n}\n' % (call, E.render(t))
    b = ANM_HEAD + 'script s {\n %s(X);\n}\nconst %s X = %s;\n' % (call, ty, E.render(t))
    mp = ctx.write('c11.map', '!anmmap\n!ins_signatures\n900 S\n901 f\n')
    outs = []
    for name, text in (('a', a), ('b', b)):
        src = ctx.write('c11_%s.spec' % name, text); out = os.path.join(ctx.dir, 'c11_%s.anm' % name)
        if os.path.exists(out): os.unlink(out)
        resp = ctx.cli({'tool': 'anm', 'cmd': 'compile', 'game': 'th12', 'in': src, 'out': out, 'maps': [mp]})
        outs.append((resp, ctx.read(out)))
    ctx.evaluations += 1
    (ra, da), (rb, db) = outs
    replay = {'inline': a, 'named': b}
    if 'panic' in ra or 'panic' in rb: ctx.inconcl('compile panic (C04)'); return
    if ra.get('ok') != rb.get('ok'):
        ctx.violation('consteval:inline-vs-named:one-fails', 'inline ok=%s named ok=%s: %s' % (ra.get('ok'), rb.get('ok'), (ra.get('diag') or rb.get('diag') or '')[:200]), replay); return
    if ra.get('ok') and da != db:
        ctx.violation('consteval:inline-vs-named:bytes-differ:%s' % top_op(t), E.render(t)[:200], replay); return
    ctx.count('inline_vs_named_pairs')

def run_shard(ctx):
    r = ctx.rng
    n = SIZES[ctx.tier] // ctx.nshards + 1
    for i in range(n):
        k = r.wpick([('fold', 6), ('vm', 3), ('inline', 1)])
        {'fold': fold_case, 'vm': vm_case, 'inline': inline_case}[k](ctx, r)

def replay(path):
    rec = json.load(open(path))
    if 'req' not in rec: print(json.dumps(rec, indent=1)[:3000]); return 0
    w = core.Worker('dev'); resp = w.call(rec['req']); w.close()
    print(rec['req']['body']); print(json.dumps(resp, indent=1)[:4000]); print('model:', rec.get('model'))
    return 0
