"""C06 - turning blocks into labels and jumps preserves behaviour."""
import json
from .. import core, testlang as TL, lowering as LW
from ..gensrc import gen_body

META = {
    'level': 'exploration',
    'rule': 'seeded nestings (depth <= 5) of if/else-if/else, while, do-while, times (with/without counter), loop, break, free blocks with time labels at block '
            'starts/ends/between statements; AstVm trace (calls with real time, final time, real_time, registers) of the parsed body vs the body after '
            'passes::desugar_blocks::run, from N register states; both counting-jump flavours; distinct = hash(statement shape sequence, features, flavour); '
            'non-trivial = at least one structured statement and one compared run',
    'assumptions': ['AstVm is the semantics of both forms (as the property states)', 'counts are non-negative (the VM and the `>` counting jump only agree there)'],
    'floors': {'bodies': 50, 'runs_compared': 300},
}
SIZES = {'quick': 9000, 'thorough': 80000}
STRUCT = {'if', 'while', 'dowhile', 'times', 'loop', 'block'}

def make_req(cfg, body, states):
    ri, rf = LW.all_regs()
    return {'op': 'vm_desugar', 'lang': cfg.lang(), 'mapfile': cfg.mapfile(), 'body': body, 'states': states, 'difficulties': [0],
            'check_regs': ri + rf, 'compare_time': True, 'max_iter': 4000}

def run_shard(ctx):
    r = ctx.rng
    n = SIZES[ctx.tier] // ctx.nshards + 1
    nstates = 6 if ctx.tier == 'quick' else 12
    for i in range(n):
        cfg = TL.Config(r, pools='large')
        feats = {'arith', 'div', 'neg', 'ternary', 'casts', 'math', 'locals', 'assign_ops', 'calls', 'if', 'while', 'dowhile', 'times', 'times_clobber',
                 'loop', 'break', 'block', 'countjump', 'timelabels', 'sigils', 'logic_cond', 'cmp_value', 'logic_value', 'bitwise', 'not', 'lognot', 'bitnot',
                 'const_conds'}   # goto / explicit jump times are not among the constructs C06 quantifies over
        for x in list(feats):
            if r.chance(0.1): feats.discard(x)
        env = LW.tl_env(cfg, feats)
        body = gen_body(r, env, sentinel='ins_101();', max_depth=r.pick([1, 2, 3, 4, 5]), max_stmts=r.pick([3, 6, 10]), expr_depth=r.pick([1, 2]))
        ri, rf = LW.all_regs()
        states = LW.gen_states(r, body, nstates, ri, rf)
        req = make_req(cfg, body.text, states)
        resp = ctx.call(req)
        if 'abort' in resp or 'inconclusive' in resp:
            ctx.inconcl('worker-' + str(resp.get('abort') or resp.get('inconclusive'))); continue
        if 'panic' in resp:
            ctx.violation('desugar:panic:' + core.panic_sig(resp['panic']), resp['panic']['msg'], {'req': req}); continue
        if resp.get('stage') != 'done':
            ctx.count('rejected'); ctx.seen('reject_reasons', core.norm_msg(core.headline(resp.get('diag', ''))) + ' @' + str(resp.get('stage'))); continue
        ctx.evaluations += 1; ctx.count('bodies')
        ncmp = 0
        for run in resp['runs']:
            st = run['status']
            if st == 'eq': ncmp += 1; ctx.count('runs_compared'); ctx.count('calls_logged', run.get('calls', 0))
            elif st in ('src_panic', 'src_nan'): ctx.count('runs_source_side_undefined')
            else:
                detail = run.get('detail') or run.get('msg') or ''
                kind = 'desugared-side-panic' if st == 'new_panic' else detail.split(' ')[0].rstrip(':').split('[')[0]
                def fails(text, run=run):
                    rr = ctx.call(make_req(cfg, text, [states[run['s']]]))
                    return rr.get('stage') == 'done' and any(x['status'] in ('diff', 'new_panic') for x in rr.get('runs', []))
                small = LW.minimise_lines(body.text, fails)
                ctx.violation('desugar:%s:%s' % (LW.shape_of(small), kind), '%s: %s' % (st, detail),
                              {'req': make_req(cfg, small, [states[run['s']]]), 'original_body': body.text, 'after_text': resp.get('after_text')})
        for f in body.used: ctx.seen('features', f)
        ctx.seen('count_jump_flavours', 'gt' if cfg.count_gt else 'ne')
        ctx.seen('max_depths', body.max_depth)
        if ncmp and (body.used & STRUCT):
            ctx.fp(tuple(body.shape), tuple(sorted(body.used)), cfg.count_gt)
        ctx.sample({'body': body.text[:500], 'desugared': (resp.get('after_text') or '')[:500], 'runs': len(resp['runs'])}, cap=2)

def replay(path):
    rec = json.load(open(path))
    w = core.Worker('dev'); resp = w.call(rec['req']); w.close()
    print(json.dumps(resp, indent=1)[:5000])
    bad = 'panic' in resp or any(x['status'] in ('diff', 'new_panic') for x in resp.get('runs', []))
    if bad: print('VIOLATION property=C06 replay=%s' % path)
    return 1 if bad else 0
