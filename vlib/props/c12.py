"""C12 - argument encoding and decoding are inverse for every instruction signature."""
import json, os
from .. import core, sig as SIG, argcodec as AC
from ..models import eval as E

META = {
    'level': 'exploration',
    'rule': 'random valid signatures over S s U u C c b f n N E _ - z m p with attributes (imm, hex, enum, bs, len, nulless, mask, furibug), <= 16 parameters, padding anywhere, declared in a user '
            'mapfile; one call per signature with values at width boundaries, registers vs immediates, strings around block/buffer boundaries; observed: blob and register mask in the compiled ANM '
            '(independent layout parser) vs an independent encoder (vlib/sig.py), the argument list printed by decompile, the blob after recompiling the decompiled text, diagnostics. '
            'distinct = hash(signature, argument kinds); non-trivial = >= 2 non-padding parameters',
    'assumptions': ['conservative range rule: the round trip is claimed for values inside the encoding\'s own range; "does not fit" is required only for values outside [-2^(8w-1), 2^(8w)-1]',
                    'registers are only generated for 4-byte int and float parameters'],
    'floors': {'encodings_matched': 300, 'decoded_equal': 300, 'reencoded_equal': 300, 'expected_diagnostics': 30, 'param_kinds': 12},
}
SIZES = {'quick': 4500, 'thorough': 40000}
OPC = 900
INT_REGS = [10000, 10001, 10002, 10003]
FLOAT_REGS = [10004, 10005, 10006, 10007]
STR_POOL = ['', 'a', 'abc', 'abcd', 'abcde', 'hello world', 'こんにちは', 'ｶﾀｶﾅ', '東方', 'x' * 15, 'x' * 16, 'x' * 17, 'y' * 31, 'y' * 32, 'quote"q', 'back\\slash', 'ソ', '表', '能', 'a\nb']

def gen_sig(r):
    n = r.wpick([(1, 2), (2, 3), (3, 3), (5, 2), (8, 1), (12, 0.5), (16, 0.3)])
    ps = []
    for i in range(n):
        ch = r.wpick([('S', 5), ('s', 2), ('U', 2), ('u', 2), ('C', 1.5), ('c', 1.5), ('b', 2), ('f', 5), ('n', 0.7), ('N', 0.7), ('E', 0.3), ('_', 1.5), ('-', 1.5)])
        attrs = {}
        if ch in 'SsUuCcbnNE':
            if r.chance(0.25): attrs['imm'] = True
            if r.chance(0.15): attrs['hex'] = True
        if ch == 'f' and r.chance(0.2): attrs['imm'] = True
        ps.append(SIG.Param(ch, attrs))
    # optionally a string parameter
    k = r.wpick([('none', 4), ('z-bs', 2), ('m-bs', 2), ('z-len', 1.5), ('m-len', 1.5), ('p', 1)])
    if k != 'none':
        ch = k[0]
        attrs = {}
        if 'bs' in k or ch == 'p': attrs['bs'] = r.pick([1, 4, 4, 8, 16])
        else:
            attrs['len'] = r.pick([4, 8, 16, 32, 48])
            if r.chance(0.3): attrs['nulless'] = True
        if ch == 'm': attrs['mask'] = [r.pick([0x77, 0, 0xaa, 0xff]), r.pick([0, 7, 3]), r.pick([0, 16, 1])]
        elif r.chance(0.2): attrs['mask'] = [r.pick([0x55, 0x10]), r.pick([0, 1]), 0]
        if 'len' in attrs or ch == 'p':
            ps.insert(r.randint(0, len(ps)), SIG.Param(ch, attrs))     # fixed-size and length-prefixed strings may sit anywhere
        else:
            ps.append(SIG.Param(ch, attrs))                             # block-padded strings must be last
    return ps

def gen_value(r, p, allow_bad=True):
    """(arg, expectation) where expectation in {'fits', 'neither', 'unjudged'}"""
    if p.imm and (p.is_float or (p.is_int and p.size == 4 and not p.arg0)) and r.chance(0.12):
        # a register where only an immediate is meaningful: accepted with a warning, stored as a plain number, no mask bit
        return (('rf', r.pick(FLOAT_REGS)) if p.is_float else ('ri', r.pick(INT_REGS))), 'imm-reg'
    if p.is_float:
        if not p.imm and r.chance(0.2): return ('rf', r.pick(FLOAT_REGS)), 'fits'
        return ('f', r.pick([0, 0x3f800000, 0xbf800000, 0x40490fdb, 0x7f7fffff, 0x00800000, 0x3dcccccd, 0xc2f60000, 0x461c4000, 0x80000000])), 'fits'
    if p.is_string:
        s = r.pick(STR_POOL)
        if r.chance(0.3): s = s + r.pick(STR_POOL)
        return ('s', s), 'string'
    n = 8 * p.size
    if p.size == 4 and not p.imm and r.chance(0.2): return ('ri', r.pick(INT_REGS)), 'fits'
    lo, hi = (-(1 << (n - 1)), (1 << (n - 1)) - 1) if p.signed else (0, (1 << n) - 1)
    k = r.wpick([('in', 8), ('edge', 4), ('neither', 1.5 if (allow_bad and n < 32) else 0), ('other-reading', 1 if n < 32 else 0)])
    if k == 'in': return ('i', r.randint(max(lo, -1000), min(hi, 1000))), 'fits'
    if k == 'edge': return ('i', r.pick([lo, hi, lo + 1, hi - 1, 0])), 'fits'
    if k == 'neither': return ('i', r.pick([(1 << n), (1 << n) + 5, -(1 << (n - 1)) - 1, 100000 if n <= 16 else 1 << 33])), 'neither'
    v = r.pick([hi + 1, (1 << n) - 1]) if p.signed else r.pick([-1, lo - 1, -(1 << (n - 1))])
    if v > 2147483647 or v < -2147483648: v = 0; return ('i', 0), 'fits'
    return ('i', v), ('fits' if SIG.fits(p, v) else 'unjudged')

def same_decoded(p, given, got):
    """Is the decompiled argument the one that was written?"""
    kind = given[0]
    if kind in ('ri', 'rf'): return got[0] == 'r' and got[1] == given[1]
    if kind == 's': return got[0] == 's' and got[1] == given[1]
    if kind == 'f':
        if got[0] != 'f': return False
        a, b = given[1], got[1]
        return a == b or (E.from_bits(a) != E.from_bits(a) and E.from_bits(b) != E.from_bits(b))
    if kind == 'i':
        if got[0] == 'ident': return True   # printed as an enum/const name (sprite0, true, ...): unjudged here (C20 covers names)
        if got[0] != 'i': return False
        n = 8 * p.size
        return (got[1] - given[1]) % (1 << 32) == 0 or (got[1] & ((1 << n) - 1)) == (given[1] & ((1 << n) - 1)) and SIG.fits(p, given[1]) and got[1] == given[1]
    return False

def run_shard(ctx):
    r = ctx.rng
    n = SIZES[ctx.tier] // ctx.nshards + 1
    for i in range(n):
        if r.chance(0.06): intrinsic_padding_case(ctx, r); continue
        params = gen_sig(r)
        sigtext = SIG.sig_text(params)
        args, exps = [], []
        allow_bad = r.chance(0.25)
        bad_used = False
        for p in params:
            if p.is_padding: continue
            a, e = gen_value(r, p, allow_bad and not bad_used)
            if e == 'neither': bad_used = True
            args.append(a); exps.append(e)
        obs = AC.roundtrip_call(ctx, 'anm', 'th12', OPC, sigtext, args)
        ctx.evaluations += 1
        c = obs['compile']
        replay = {'sig': sigtext, 'args': args, 'text': obs['text']}
        if 'panic' in c or 'abort' in c:
            p = c.get('panic') or {}
            ctx.violation('abi:panic:' + (core.panic_sig(p) if p else str(c.get('abort'))), (p.get('msg') or str(c.get('abort')))[:200], replay); continue
        # what does the independent model say?
        try:
            blob, mask, arg0 = SIG.encode_args(params, args)
            model_err = None
        except SIG.Unencodable as u:
            blob = mask = None; model_err = str(u)
        string_args = [(p, a) for p, a in zip([q for q in params if not q.is_padding], args) if a[0] == 's']
        kinds = tuple(p.ch for p in params)
        for p in params: ctx.seen('param_kinds', p.ch + ('(' + ','.join(sorted(k for k in p.attrs if k in ('imm', 'bs', 'len', 'nulless', 'mask', 'furibug'))) + ')' if p.attrs else ''))
        if not c.get('ok'):
            if not core.has_error_diag(c.get('diag', '')):
                ctx.violation('abi:fails-without-diagnostic', c.get('diag', '')[:200], replay); continue
            if model_err is not None or 'unjudged' in exps:
                ctx.count('expected_diagnostics'); ctx.seen('diagnostic_kinds', core.norm_msg(core.headline(c['diag']))[:60]); continue
            ctx.violation('abi:rejects-valid:%s' % core.norm_msg(core.headline(c['diag']))[:60], 'signature %s args %s: %s' % (sigtext, args, c['diag'][:300]), replay); continue
        if c.get('diag', '').strip(): ctx.count('compiled_with_warnings')
        if model_err is not None:
            if 'neither' in exps or 'string' in model_err or 'Shift-JIS' in model_err:
                ctx.violation('abi:%s:accepted-silently' % ('int-does-not-fit' if 'integer' in model_err else 'string-' + model_err.replace(' ', '-')[:30]),
                              'signature %s, args %s compiled without a diagnostic (%s)' % (sigtext, args, model_err), replay)
            else: ctx.count('unjudged_model_refusals')
            continue
        ins = obs.get('instr')
        if ins is None:
            ctx.violation('abi:instruction-missing', 'compiled file has no ins_%d (%s)' % (OPC, obs.get('layout_error')), replay); continue
        if 'unjudged' in exps:
            ctx.count('unjudged_other_reading'); continue
        if ins.blob != blob or ins.mask != mask:
            first = next((j for j in range(min(len(blob), len(ins.blob))) if blob[j] != ins.blob[j]), min(len(blob), len(ins.blob)))
            ctx.violation('abi:encoding:%s' % which_param(params, first), 'signature %s args %s: blob %s mask %#x, model blob %s mask %#x' % (sigtext, args, ins.blob.hex(), ins.mask, blob.hex(), mask), replay); continue
        ctx.count('encodings_matched')
        d = obs.get('decompile') or {}
        if 'panic' in d or not d.get('ok'):
            ctx.violation('abi:decode-fails:%s' % core.norm_msg(core.headline(d.get('diag', '') or str(d.get('panic'))))[:60], str(d.get('diag') or d.get('panic'))[:300], replay); continue
        loss = [w for w in core.warnings_of(d.get('diag', ''))]
        da = obs.get('dec_args')
        nonpad = [p for p in params if not p.is_padding]
        if da is None or len(da) != len(nonpad):
            if loss: ctx.count('decode_with_loss_warning'); continue
            ctx.violation('abi:decoded-arity', 'decompiled call has %s arguments, signature has %d: %s' % (None if da is None else len(da), len(nonpad), (obs.get('dec_text') or '')[-300:]), replay); continue
        bad = [(p.text(), g, got) for p, g, got, e in zip(nonpad, args, da, exps) if e != 'imm-reg' and not same_decoded(p, g, got)]
        if 'imm-reg' in exps: ctx.count('register_in_immediate_param')
        if bad:
            if loss: ctx.count('decode_with_loss_warning'); continue
            ctx.violation('abi:decoded-differs:%s' % bad[0][0][:20], 'wrote %s, decompiled %s (param %s)' % (bad[0][1], bad[0][2], bad[0][0]), replay); continue
        ctx.count('decoded_equal')
        i2 = obs.get('instr2')
        if i2 is None or i2.blob != ins.blob or i2.mask != ins.mask:
            ctx.violation('abi:reencode-differs', 're-encoding the decompiled arguments gives %s, original %s (%s)' % (i2.blob.hex() if i2 else None, ins.blob.hex(), (obs.get('recompile') or {}).get('diag', '')[:200]), replay); continue
        ctx.count('reencoded_equal')
        if len(nonpad) >= 2: ctx.fp(sigtext, tuple(a[0] for a in args))
        ctx.sample({'sig': sigtext, 'args': [AC.render_arg(a) for a in args], 'blob': ins.blob.hex(), 'mask': ins.mask, 'decompiled': [list(x) for x in da]}, cap=3)

def intrinsic_padding_case(ctx, r):
    """Signatures of *intrinsic* instructions with padding in any position: the statement written with operators must decode back to
    the same statement (and re-encode to the same bytes); the arguments of an intrinsic go through their own index bookkeeping."""
    tool, game, magic, regs = r.pick([('anm', 'th12', '!anmmap', ('$REG[10000]', '$REG[10001]', '%REG[10004]', '%REG[10005]')),
                                      ('ecl', 'th08', '!eclmap', ('$REG[10000]', '$REG[10001]', '%REG[10016]', '%REG[10017]'))])
    def pad(sig):
        k = r.randint(0, len(sig)); return sig[:k] + r.pick(['_', '_', '__', '----']) + sig[k:] if r.chance(0.8) else sig
    sigs = {900: pad('SS'), 901: pad('SSS'), 902: pad('ff'), 903: pad('fff'), 904: pad('SS')}
    intr = {900: 'AssignOp(op="="; type="int")', 901: 'BinOp(op="+"; type="int")', 902: 'AssignOp(op="="; type="float")', 903: 'BinOp(op="*"; type="float")', 904: 'UnOp(op="-"; type="int")'}
    mapfile = magic + '\n!ins_signatures\n' + ''.join('%d %s\n' % kv for kv in sigs.items()) + '!ins_intrinsics\n' + ''.join('%d %s\n' % kv for kv in intr.items())
    a, b, f, g = regs
    stmts = ['%s = %d;' % (a, r.randint(1, 99)), '%s = %s + %d;' % (b, a, r.randint(1, 9)), '%s = %d.5;' % (f, r.randint(0, 9)), '%s = %s * %s;' % (g, f, f), '%s = -%s;' % (a, b), '%s = %s + %s;' % (a, b, a)]
    r.shuffle(stmts)
    body = '\n'.join(stmts)
    text = ('entry { path: "a.png", has_data: false, img_width: 64, img_height: 64, img_format: 3, sprites: {} }\nscript s0 {\n%s\n}\n' % body) if tool == 'anm' else ('void sub0() {\n%s\n}\nscript timeline0 {}\n' % body)
    mp = ctx.write('c12i.map', mapfile); src = ctx.write('c12i.txt', text); out = os.path.join(ctx.dir, 'c12i.bin'); dec = os.path.join(ctx.dir, 'c12i.dec'); out2 = os.path.join(ctx.dir, 'c12i.re')
    for q in (out, dec, out2):
        if os.path.exists(q): os.unlink(q)
    ctx.evaluations += 1
    replay = {'text': text, 'mapfile': mapfile, 'tool': tool, 'game': game}
    c = ctx.cli({'tool': tool, 'cmd': 'compile', 'game': game, 'in': src, 'out': out, 'maps': [mp], 'no_builtin': True})
    if 'panic' in c or 'abort' in c: ctx.inconcl('compile crash (C04)'); return
    if not c.get('ok'):
        ctx.violation('abi:intrinsic-with-padding:rejects-valid', core.norm_msg(core.headline(c.get('diag', '')))[:200], replay); return
    d = ctx.cli({'tool': tool, 'cmd': 'decompile', 'game': game, 'in': out, 'out': dec, 'maps': [mp], 'no_builtin': True})
    if 'panic' in d or 'abort' in d: ctx.inconcl('decompile crash (C16)'); return
    if not d.get('ok'): ctx.violation('abi:intrinsic-with-padding:unreadable', core.norm_msg(core.headline(d.get('diag', '')))[:200], replay); return
    got = (ctx.read(dec) or b'').decode('utf-8', 'replace')
    norm = lambda t: ''.join(t.split())
    missing = [st for st in stmts if norm(st) not in norm(got)]
    if missing and not core.warnings_of(d.get('diag', '')):
        ctx.violation('abi:intrinsic-with-padding:decoded-differs', 'wrote `%s`; the decompiled script does not contain it: %s' % (missing[0], got[-400:]), dict(replay, decompiled=got[-1500:])); return
    c2 = ctx.cli({'tool': tool, 'cmd': 'compile', 'game': game, 'in': dec, 'out': out2, 'maps': [mp], 'no_builtin': True, **({'images': [out]} if tool == 'anm' else {})})
    if not c2.get('ok') or ctx.read(out2) != ctx.read(out):
        ctx.violation('abi:intrinsic-with-padding:reencode-differs', 'recompiling the decompiled script gives different bytes / fails: %s' % core.norm_msg(core.headline(c2.get('diag', '')))[:120], dict(replay, decompiled=got[-1500:])); return
    ctx.count('intrinsic_padding_cases'); ctx.fp('intr-pad', tuple(sorted(sigs.items())))

def which_param(params, offset):
    pos = 0
    for p in params:
        size = p.size if p.size else 4
        if p.is_string: return p.ch + '-string'
        if offset < pos + size: return p.ch
        pos += size
    return 'tail'

def replay(path):
    rec = json.load(open(path)); print(json.dumps(rec, indent=1)[:3000]); return 0
