"""C09 - the type checker accepts exactly the well-typed scripts and predicts value types."""
import json
from .. import core, testlang as TL, lowering as LW
from ..gensrc import BodyGen, INT, FLOAT

META = {
    'level': 'exploration',
    'rule': 'well-typed bodies generated from the documented typing rules (operator classes, int-only conditions/counters, assignment/declaration types, call arity and parameter types, '
            'sigils, casts) must be accepted; for each, single-point mutations replace one typed expression slot (operand, condition, count, initialiser, argument, switch case, ternary branch) at a '
            'random position - any nesting depth, any statement kind - by an expression of another type, or change a call arity / use a non-void expression statement: those must be rejected; '
            'a finite matrix of every operator / condition / count / branch / argument construct x operand types (int, float, string; literal and register), each cell placed in a random nesting, must get the verdict of the rule table in vlib/typematrix.py; for accepted bodies the static type of every assignment RHS subexpression must equal the type of its evaluated value. distinct = hash(shape, fault context); non-trivial = body has >= 3 statements',
    'assumptions': ['the generator is the reference typer: well-typedness holds by construction, ill-typedness by the single injected fault'],
    'floors': {'matrix_cells': 400, 'welltyped_accepted': 100, 'illtyped_rejected': 300, 'fault_contexts': 6, 'fault_block_depths': 3, 'static_dynamic_pairs': 300},
}
SIZES = {'quick': 2100, 'thorough': 20000}

def make_gen(r, cfg, feats, state, inject_at=None):
    r.setstate(state)
    env = LW.tl_env(cfg, feats)
    g = BodyGen(r, env, max_depth=3, max_stmts=8, expr_depth=3)
    g.inject_at = inject_at
    return g

def req_for(cfg, text, dynamic=False, state=None):
    return {'op': 'typeck', 'lang': cfg.lang(), 'mapfile': cfg.mapfile(), 'body': text, 'dynamic': dynamic, 'state': state or {}}

def all_state(r):
    regs = {}
    for g in TL.INT_REGS + TL.EXTRA_INT: regs[str(g)] = {'i': r.randint(-5, 5)}
    for g in TL.FLOAT_REGS + TL.EXTRA_FLOAT: regs[str(g)] = {'f': LW.f32bits(r.uniform(-2, 2))}
    return {'regs': regs}

def matrix_part(ctx, r):
    """The finite construct x operand-type matrix (vlib/typematrix.py), each cell in a random nesting."""
    from .. import typematrix as TM
    cfg = TL.Config()
    cfg.mapfile()
    cs = TM.cells('REG[1000]', 'REG[1004]', 'REG[1001]', 'REG[1005]', 'call_S', 'call_f')
    reps = 1 if ctx.tier == 'quick' else 4
    for k, (tag, stmt, want) in enumerate(cs):
        if k % ctx.nshards != ctx.shard: continue
        for _ in range(reps):
            wname, text = TM.wrap(r, stmt, 'REG[1002]')
            body = '{\n' + text + '\nins_101();\n}'
            resp = ctx.call(req_for(cfg, body))
            ctx.evaluations += 1
            replay = {'req': req_for(cfg, body), 'cell': tag, 'expected': want}
            if 'panic' in resp:
                ctx.violation('typeck:matrix:panic:' + core.panic_sig(resp['panic']), '%s: %s' % (tag, resp['panic']['msg'][:200]), replay); continue
            if resp.get('stage') != 'done':
                ctx.count('matrix_unresolved'); ctx.seen('matrix_unresolved_reasons', tag + ': ' + core.norm_msg(core.headline(resp.get('diag', '')))[:60]); continue
            got = 'accept' if resp['accepted'] else 'reject'
            ctx.count('matrix_cells'); ctx.seen('matrix_wrappers', wname)
            if got != want:
                ctx.violation('typeck:matrix:%ss-%s:%s' % (got, 'illtyped' if want == 'reject' else 'welltyped', tag), '`%s` (%s) was %sed; the typing rules say %s. %s' % (stmt.replace('\n', ' '), wname, got, want, resp.get('diag', '')[:200]), replay)
            else:
                ctx.fp('matrix', tag, wname)

def run_shard(ctx):
    r = ctx.rng
    matrix_part(ctx, r)
    n = SIZES[ctx.tier] // ctx.nshards + 1
    for i in range(n):
        cfg = TL.Config(r, pools='large')
        feats = {'arith', 'div', 'neg', 'ternary', 'casts', 'math', 'locals', 'assign_ops', 'calls', 'if', 'while', 'dowhile', 'times', 'times_clobber', 'loop', 'break', 'block',
                 'goto', 'condjump', 'countjump', 'timelabels', 'sigils', 'logic_cond', 'cmp_value', 'logic_value', 'bitwise', 'not', 'lognot', 'bitnot', 'diffswitch', 'rawregs'}
        for x in list(feats):
            if r.chance(0.1): feats.discard(x)
        state = r.getstate()
        g = make_gen(r, cfg, feats, state)
        body = g.generate()
        nopp = g.opportunities
        after = r.getstate()
        resp = ctx.call(req_for(cfg, body.text, dynamic=True, state=all_state(r)))
        ctx.evaluations += 1
        replay = {'req': req_for(cfg, body.text)}
        if 'panic' in resp:
            ctx.violation('typeck:panic:' + core.panic_sig(resp['panic']), resp['panic']['msg'][:200], replay)
        elif resp.get('stage') != 'done':
            ctx.count('unresolved'); ctx.seen('unresolved_reasons', core.norm_msg(core.headline(resp.get('diag', '')))[:70])
        elif not resp['accepted']:
            small = LW.minimise_lines(body.text, lambda t: (lambda rr: rr.get('stage') == 'done' and not rr['accepted'])(ctx.call(req_for(cfg, t))))
            ctx.violation('typeck:rejects-welltyped:%s' % core.norm_msg(core.headline(resp.get('diag', '')))[:60], resp.get('diag', '')[:400], {'req': req_for(cfg, small), 'original': body.text})
        else:
            ctx.count('welltyped_accepted')
            if body.nstmts >= 3: ctx.fp('ok', tuple(body.shape))
            for d in resp.get('dyn', []):
                if d['dynamic'].startswith('PANIC'): ctx.count('dynamic_unavailable'); continue
                ctx.count('static_dynamic_pairs')
                if d['static'] != d['dynamic']:
                    ctx.violation('typeck:static-vs-dynamic:%s-vs-%s' % (d['static'], d['dynamic']), 'expression %s: checker says %s, value is %s' % (d['expr'][:120], d['static'], d['dynamic']), replay)
        # single-point mutations of the same program
        if nopp:
            ks = sorted(set(r.randint(1, nopp) for _ in range(4 if ctx.tier == 'quick' else 8)))
            for k in ks:
                g2 = make_gen(r, cfg, feats, state, inject_at=k)
                b2 = g2.generate()
                if g2.injected is None: continue
                rr = ctx.call(req_for(cfg, b2.text))
                ctx.evaluations += 1
                inj = g2.injected
                rp = {'req': req_for(cfg, b2.text), 'fault': inj}
                if 'panic' in rr:
                    ctx.violation('typeck:panic:' + core.panic_sig(rr['panic']), rr['panic']['msg'][:200], rp); continue
                if rr.get('stage') != 'done':
                    ctx.count('mutant_unresolved'); continue
                cx = '%s/%s' % (inj['context'][-1], inj['got'].split('-')[0])
                ctx.seen('fault_contexts', inj['context'][-1]); ctx.seen('fault_block_depths', inj['block_depth']); ctx.seen('fault_kinds', inj['got'])
                if rr['accepted']:
                    small = LW.minimise_lines(b2.text, lambda t: (lambda q: q.get('stage') == 'done' and q['accepted'] and False)(ctx.call(req_for(cfg, t))))
                    ctx.violation('typeck:accepts-illtyped:%s:depth%d' % (cx, min(inj['block_depth'], 3)), 'wanted %s, wrote %s in context %s at block depth %d' % (inj['wanted'], inj['got'], inj['context'], inj['block_depth']), rp)
                else:
                    ctx.count('illtyped_rejected')
                    if b2.nstmts >= 3: ctx.fp('bad', tuple(b2.shape), cx, inj['block_depth'])
            r.setstate(after)
        # structural faults that are not expression slots: arity and non-void expression statements, placed in a nested position
        if r.chance(0.3):
            inner = r.pick(['call_SS(1);', 'call_S(1, 2);', 'call_f();', '1 + 2;', 'A;' if cfg.aliases else 'REG[1000];', 'call_S("x");', 'ins_300(1.5);', 'int q = 1.5;', 'float w = 2;', 'int q2 = "s";',
                            'times(1.5) { }', 'times(A = 1.5) { }' if cfg.aliases else 'times(REG[1000] = 1.5) { }', 'if (1.5) { }', 'while (2.5) { }', 'do { } while (0.5);', 'unless ("s") { }', 'if (1.5) goto LX; LX:',
                            'REG[1000] = 1.5;', 'REG[1004] = 1;', 'REG[1000] += 1.5;', 'REG[1004] %= 2;', 'REG[1004] |= 1.0;', 'REG[1000] = 1 ? 2 : 3.0;', 'REG[1000] = 1.5 ? 2 : 3;', 'REG[1000] = (1:2.0);',
                            'REG[1000] = sin(1);', 'REG[1004] = 1.0 & 2.0;', 'REG[1004] = ~1.0;', 'REG[1000] = !1.5;', 'REG[1000] = 1 < 2.0;', 'REG[1000] = 1.0 && 1;', 'REG[1004] = 1.0 << 2;'])
            wrap = r.pick(['%s', '{ %s }', '{ { %s } }', 'if (1) { %s }', 'if (1) { } else { %s }', 'if (0) { } else if (1) { %s }', 'loop { %s break; }', 'times(2) { %s }', 'while (0) { %s }', 'do { %s } while (0);',
                           '{ if (1) { { %s } } }', 'times(1) { loop { { %s } break; } }'])
            text = '{\n' + (wrap % inner) + '\n}'
            rr = ctx.call(req_for(cfg, text))
            ctx.evaluations += 1
            if 'panic' in rr: ctx.violation('typeck:panic:' + core.panic_sig(rr['panic']), rr['panic']['msg'][:200], {'req': req_for(cfg, text)})
            elif rr.get('stage') == 'done':
                if rr['accepted']:
                    ctx.violation('typeck:accepts-illtyped:fixed-list:%s' % LW.shape_of(wrap % '#')[:40], 'accepted ill-typed `%s` inside `%s`' % (inner, wrap), {'req': req_for(cfg, text)})
                else:
                    ctx.count('illtyped_rejected'); ctx.count('fixed_list_rejected'); ctx.fp('fixed', inner, wrap)
            else:
                ctx.count('fixed_list_unresolved'); ctx.seen('fixed_unresolved', inner)
        ctx.sample({'welltyped': body.text[:300]}, cap=2)

def replay(path):
    rec = json.load(open(path))
    w = core.Worker('dev'); resp = w.call(rec['req']); w.close()
    print(rec['req']['body']); print(json.dumps({k: resp.get(k) for k in ('stage', 'accepted', 'diag')}, indent=1)[:3000]); print(rec.get('fault'))
    return 0
