"""C13 - every instruction gets exactly the time its labels say."""
import json, os, re
from .. import core, layout as L, argcodec as AC
from ..models import eval as E

META = {
    'level': 'exploration',
    'rule': 'sequences of absolute / relative time labels (negative, zero, repeated, constant expressions incl. const items, wrapping deltas) interleaved with marker instructions and nested in '
            'free blocks, if/else, loop and times; compiled for ANM (i16 times), MSG (i16), STD and old ECL (i32); the time stored on every marker instruction (independent layout parser) must equal an '
            'independent label-arithmetic model; then the decompiled text is parsed back with the same model and must reproduce the stored times, and recompiling must reproduce the bytes. '
            'distinct = hash(label/instruction sequence, format); non-trivial = >= 2 labels and >= 2 markers',
    'assumptions': ['only times inside the format\'s field range are judged here (out-of-range times are C03\'s business)'],
    'floors': {'sequences_matched': 200, 'markers_checked': 1000, 'decompiled_sequences_matched': 150, 'formats': 4, 'label_kinds': 5},
}
SIZES = {'quick': 3600, 'thorough': 40000}
FORMATS = [('anm', 'th12', 16), ('anm', 'th08', 16), ('msg', 'th08', 16), ('std', 'th12', 32), ('std', 'th07', 32), ('ecl', 'th07', 32), ('ecl', 'th06', 32), ('anm', 'th06', 16)]

class Seq:
    def __init__(self, r, bits, blocks):
        self.r, self.bits, self.blocks = r, bits, blocks
        self.t = 0
        self.lines = []
        self.markers = []       # (marker id, expected time)
        self.kinds = set()
        self.consts = {}
        self.nm = 0
        self.out_of_range = False
        self.shape = []

    def lim(self): return (1 << (self.bits - 1)) - 1

    def label(self):
        r = self.r
        k = r.wpick([('rel', 5), ('abs', 3), ('neg', 1.2), ('zero', 0.7), ('expr', 1.5), ('const', 1), ('wrap', 0.15 if self.bits == 32 else 0), ('repeat', 0.5), ('negrel', 0.5)])
        self.kinds.add(k); self.shape.append(k)
        if k == 'rel':
            d = r.randint(1, 40); self.t = E.wrap(self.t + d); self.lines.append('+%d:' % d)
        elif k == 'abs':
            v = r.randint(0, 300); self.t = v; self.lines.append('%d:' % v)
        elif k == 'neg':
            v = -r.randint(1, 50); self.t = v; self.lines.append('%d:' % v)
        elif k == 'zero':
            if r.chance(0.5): self.lines.append('+0:')
            else: self.t = 0; self.lines.append('0:')
        elif k == 'expr':
            a, b = r.randint(0, 9), r.randint(0, 9)
            op = r.pick(['+', '*', '-', '<<', '|', '%'])
            if op == '%': b = b + 1
            v, _ = E.binop(op, a, b, 'int')
            self.t = E.wrap(self.t + v); self.lines.append('+(%d %s %d):' % (a, op, b))
        elif k == 'const':
            name = 'K%d' % len(self.consts)
            v = r.randint(0, 30); self.consts[name] = v
            self.t = E.wrap(self.t + v * 2); self.lines.append('+(%s * 2):' % name)
        elif k == 'wrap':
            self.t = E.wrap(self.t + 2147483647); self.lines.append('+2147483647:')
        elif k == 'repeat':
            self.lines.append('%d:' % self.t if -2147483648 < self.t else '+0:')
        elif k == 'negrel':
            d = r.randint(1, 20); self.t = E.wrap(self.t - d); self.lines.append('+(-%d):' % d)
        if not (-self.lim() - 1 <= self.t <= self.lim()): self.out_of_range = True

    def marker(self):
        self.nm += 1
        self.lines.append('ins_900(%d);' % self.nm)
        self.markers.append((self.nm, self.t))
        self.shape.append('m')

    def diffrun(self):
        """Look-alike markers under per-difficulty labels (the decompiler merges such runs into one difficulty switch), possibly with a
        time label in the middle of the run."""
        r = self.r
        cuts = sorted(r.sample([1, 2, 3], r.randint(1, 3)))
        groups, prev = [], 0
        for c in cuts + [4]: groups.append('0123'[prev:c]); prev = c
        for i, g in enumerate(groups):
            if i >= 1 and r.chance(0.45):
                d = r.randint(1, 12); self.t = E.wrap(self.t + d); self.lines.append('+%d:' % d)
                if not (-self.lim() - 1 <= self.t <= self.lim()): self.out_of_range = True
            self.nm += 1
            self.lines.append('{"%s"}: ins_900(%d);' % (g, self.nm))
            self.markers.append((self.nm, self.t))
        self.shape.append('diffrun'); self.kinds.add('diffrun')

    def seq(self, depth, n):
        r = self.r
        for _ in range(n):
            if getattr(self, 'difficulty_runs', False) and r.chance(0.12): self.diffrun(); continue
            k = r.wpick([('label', 4), ('marker', 4), ('block', 1 if depth < 3 else 0), ('if', 1 if (self.blocks in ('full', 'plain') and depth < 3) else 0), ('loop', 0.6 if (self.blocks and depth < 3) else 0),
                         ('times', 0.5 if (self.blocks == 'full' and depth < 3) else 0), ('while', 0.5 if (self.blocks in ('full', 'plain') and depth < 3) else 0)])
            if k == 'label': self.label()
            elif k == 'marker': self.marker()
            elif k == 'block':
                self.lines.append('{'); self.seq(depth + 1, r.randint(1, 4)); self.lines.append('}'); self.shape.append('blk')
            elif k == 'if':
                self.lines.append('if (%s) {' % self.cond()); self.seq(depth + 1, r.randint(1, 3)); self.lines.append('}')
                if r.chance(0.4):
                    self.lines[-1] = '} else {'; self.seq(depth + 1, r.randint(1, 3)); self.lines.append('}')
                self.shape.append('if')
            elif k == 'loop':
                self.lines.append('loop {'); self.seq(depth + 1, r.randint(1, 3)); self.lines.append('break;'); self.lines.append('}'); self.shape.append('loop')
            elif k == 'times':
                self.lines.append('times(%d) {' % r.randint(0, 3)); self.seq(depth + 1, r.randint(1, 3)); self.lines.append('}'); self.shape.append('times')
            elif k == 'while':
                self.lines.append('%s (%s) {' % (r.pick(['while', 'unless', 'if']), r.pick(['0', '1 - 1', '0'])) if r.chance(0.7) else 'while (%s) {' % self.cond())
                self.seq(depth + 1, r.randint(1, 3)); self.lines.append('}'); self.shape.append('while')

    def cond(self):
        # run-time conditions, and compile-time constant ones (false as well as true: a branch that can never run still carries its
        # time labels, and the statements after it must see them)
        r = self.r
        def const_cond():
            k = r.pick(['0', '1', '2 - 2', '3 > 1', 'K'])
            if k == 'K':
                k = 'KC%d' % len(self.consts); self.consts[k] = r.pick([0, 0, 1, 5])
            self.kinds.add('const-cond')
            return k
        if self.blocks == 'full': return const_cond() if r.chance(0.3) else 'REG[10000] == %d' % r.randint(0, 3)
        return const_cond() if r.chance(0.6) else '1'

def file_text(tool, game, body, consts):
    cs = ''.join('const int %s = %d;\n' % kv for kv in consts.items())
    return cs + AC.skeleton(tool, game, body)

def stored_times(data, tool, game, opc=900):
    """[(marker id, stored time)] for every ins_900 in file order."""
    out = []
    def scan(instrs):
        for i in instrs:
            if i.opcode == opc:
                out.append((int.from_bytes(i.blob[:4], 'little', signed=True), i.time))
    if tool == 'anm':
        for e in L.parse_anm(data, game):
            for s in e['scripts']: scan(s['instrs'])
    elif tool == 'msg':
        for off, ins in sorted(L.parse_msg(data, game)['scripts'].items()): scan(ins)
    elif tool == 'std': scan(L.parse_std(data, game)['script'])
    elif tool == 'ecl':
        for s in L.parse_ecl06(data, game)['subs']: scan(s['instrs'])
    return out

LABEL_RE = re.compile(r'^\s*(?:\{"[^"]*"\}:\s*)?(?:(?P<abs>-?\d+):|\+(?P<rel>\d+):|(?P<ins>ins_\d+)\((?:(?P<arg>-?\d+)|\((?P<sw>[-\d:\s]*)\))?)')

def model_from_decompiled(text, opc):
    """Apply the label model to decompiled text: [(marker id, time)]."""
    t, out = 0, []
    in_script = False
    for line in text.splitlines():
        s = line.strip()
        if s.startswith(('script ', 'void ')): t = 0; in_script = True; continue
        if not in_script: continue
        m = LABEL_RE.match(line)
        if not m: continue
        if m.group('abs') is not None: t = int(m.group('abs'))
        elif m.group('rel') is not None: t = E.wrap(t + int(m.group('rel')))
        elif m.group('ins') == 'ins_%d' % opc and m.group('arg') is not None: out.append((int(m.group('arg')), t))
        elif m.group('ins') == 'ins_%d' % opc and m.group('sw') is not None:
            # a difficulty switch stands for one instruction per explicit case, all at this time
            for c in m.group('sw').split(':'):
                if c.strip(): out.append((int(c), t))
    return out

def run_shard(ctx):
    r = ctx.rng
    n = SIZES[ctx.tier] // ctx.nshards + 1
    for i in range(n):
        tool, game, bits = r.pick(FORMATS)
        opc = 900 if not (tool == 'msg' or (tool == 'anm' and game == 'th06')) else 90
        blocks = 'full' if (tool in ('anm', 'ecl') and game != 'th06') else ('plain' if tool == 'ecl' else ('loops' if tool == 'std' else None))
        if tool == 'msg' or (tool == 'anm' and game == 'th06'): blocks = None
        sq = Seq(r, bits, blocks)
        sq.difficulty_runs = tool == 'ecl'
        sq.seq(0, r.randint(3, 14))
        if not sq.markers: sq.marker()
        body = '\n'.join(sq.lines).replace('ins_900(', 'ins_%d(' % opc)
        if tool == 'ecl' and blocks == 'full': body = body.replace('REG[10000]', 'REG[10000]' if game != 'th06' else 'REG[-10001]')
        text = file_text(tool, game, body, sq.consts)
        src = ctx.write('c13.txt', text)
        sigtext = 'S__' if (tool == 'std' and game in ('th06', 'th07', 'th08', 'th09')) else 'S'
        mp = ctx.write('c13.map', '%s\n!ins_signatures\n%d %s\n' % (AC.MAGIC[tool], opc, sigtext))
        out = os.path.join(ctx.dir, 'c13.bin'); dec = os.path.join(ctx.dir, 'c13.dec'); out2 = os.path.join(ctx.dir, 'c13b.bin')
        for p in (out, dec, out2):
            if os.path.exists(p): os.unlink(p)
        c = ctx.cli({'tool': tool, 'cmd': 'compile', 'game': game, 'in': src, 'out': out, 'maps': [mp]})
        ctx.evaluations += 1
        fmt = '%s:%s' % (tool, game)
        replay = {'text': text, 'tool': tool, 'game': game, 'expected': sq.markers}
        if 'panic' in c or 'abort' in c: ctx.inconcl('compile crash (C04)'); continue
        if not c.get('ok'):
            if sq.out_of_range and core.has_error_diag(c.get('diag', '')): ctx.count('out_of_range_rejected'); continue
            ctx.count('rejected'); ctx.seen('reject_reasons', fmt + ':' + core.norm_msg(core.headline(c.get('diag', '')))[:60]); continue
        if sq.out_of_range: ctx.count('out_of_range_unjudged'); continue
        data = ctx.read(out)
        try: got = stored_times(data, tool, game, opc)
        except L.LayoutError as e:
            ctx.violation('time:unparsable-output:%s' % fmt, str(e), replay); continue
        want = sq.markers
        if [m for m, _ in got] != [m for m, _ in want]:
            ctx.violation('time:markers-missing-or-reordered:%s' % tool, 'markers in file %s, in source %s' % ([m for m, _ in got][:20], [m for m, _ in want][:20]), replay); continue
        bad = [(m, tw, tg) for (m, tw), (_, tg) in zip(want, got) if tw != tg]
        if bad:
            ctx.violation('time:%s:%s' % (tool, rule_of(sq, bad[0][0])), 'marker %d should have time %d, file has %d' % bad[0], replay); continue
        ctx.count('sequences_matched'); ctx.count('markers_checked', len(got)); ctx.seen('formats', fmt)
        for k in sq.kinds: ctx.seen('label_kinds', k)
        if len(sq.markers) >= 2 and len(sq.kinds) >= 1 and sum(1 for x in sq.shape if x != 'm') >= 2: ctx.fp(tuple(sq.shape), fmt, tuple(want))
        # decompile direction
        dopts = {'blocks': False} if r.chance(0.5) else {}
        d = ctx.cli({'tool': tool, 'cmd': 'decompile', 'game': game, 'in': out, 'out': dec, 'maps': [mp], 'dopts': dopts, 'width': 100})
        if 'panic' in d or not d.get('ok'):
            ctx.violation('time:decompile-fails:%s' % tool, str(d.get('diag') or d.get('panic'))[:300], replay); continue
        dt = (ctx.read(dec) or b'').decode('utf-8', 'replace')
        replay['decompiled'] = dt[:3000]
        if dopts.get('blocks') is False or not sq.blocks:
            # with blocks off the decompiled script is a flat list: the model applies line by line
            back = model_from_decompiled(dt, opc)
            if back != got:
                ctx.violation('time:decompiled-labels:%s' % tool, 'labels in the decompiled text give %s, file has %s' % (back[:12], got[:12]), replay); continue
            ctx.count('decompiled_sequences_matched')
        cj = {'tool': tool, 'cmd': 'compile', 'game': game, 'in': dec, 'out': out2, 'maps': [mp]}
        if tool == 'anm': cj['images'] = [out]
        c2 = ctx.cli(cj)
        if c2.get('ok'):
            try:
                got2 = stored_times(ctx.read(out2), tool, game, opc)
                if got2 != got: ctx.violation('time:recompiled-times-differ:%s' % tool, '%s vs %s' % (got2[:12], got[:12]), replay); continue
                ctx.count('recompiled_times_equal')
            except L.LayoutError: pass
        ctx.sample({'format': fmt, 'source': body[:400], 'markers': want[:10]}, cap=3)

def rule_of(sq, marker):
    """Kind of the label nearest before the offending marker."""
    idx = [i for i, l in enumerate(sq.lines) if l.startswith('ins_') and l.endswith('(%d);' % marker)]
    if not idx: return 'unknown'
    for l in reversed(sq.lines[:idx[0]]):
        if l.endswith(':'):
            if l.startswith('+('): return 'relative-expression'
            if l.startswith('+'): return 'relative'
            if l.startswith('-'): return 'negative-absolute'
            return 'absolute'
        if l in ('{', '}') or l.endswith('{'): return 'block-boundary'
    return 'initial'

def replay(path):
    rec = json.load(open(path)); print(rec['text']); print(rec.get('expected')); print(rec.get('decompiled', '')[:2000]); return 0
