"""C17 - extracting images and compiling them back reproduces the embedded textures."""
import json, os, shutil
from .. import core, layout as L

FORMATS = {1: ('FORMAT_ARGB_8888', 4), 3: ('FORMAT_RGB_565', 2), 5: ('FORMAT_ARGB_4444', 2), 7: ('FORMAT_GRAY_8', 1)}
META = {
    'level': 'exploration',
    'rule': '(a) pixel sweep: every value of the 16-bit and 8-bit formats (exhaustive) and edge/random 32-bit pixels through the real transcoders (to ARGB8888 and back), and again end to end through '
            '`truanm extract` + `truanm compile -i dir` in 256x256 textures that contain every 16-bit value; (b) generated ANM files (1-4 entries, every format, texture sizes 1..64, offsets 0..8, duplicate paths, '
            'virtual paths) whose texture bytes are arbitrary: extract + compile -i dir, compile -i original.anm, and compile with every ordering of up to three sources (ANM files and directories, via -i and #pragma '
            'image_source) that supply different bytes for overlapping paths; the expected texture of every entry is computed by an independent model (last source wins; ANM sources matched per path in order of '
            'appearance) and compared byte for byte with the THTX sections of the written file (independent layout parser). distinct = hash(format, dims, offsets, source ordering); non-trivial = texture with >= 2 '
            'different pixel values',
    'assumptions': ['all sources of one run carry the same texture metadata (size/format) for a path; they differ in pixel bytes only'],
    'floors': {'pixels_swept': 131000, 'roundtrip_dir': 40, 'verbatim_anm': 40, 'orderings': 40, 'entries_compared': 300},
}
SIZES = {'quick': 800, 'thorough': 12000}
GAMES_OLD = ['th06', 'th07', 'th08', 'th09', 'th095', 'th10']
GAMES_NEW = ['th11', 'th12', 'th125', 'th13', 'th14', 'th16', 'th17', 'th18']

def sweep(ctx):
    r = ctx.rng
    for num, (name, bpp) in FORMATS.items():
        req = {'op': 'color_sweep', 'format': name}
        if bpp == 4:
            edge = [0, 0xffffffff, 0xff000000, 0x00ffffff, 0x80808080, 0x01020304, 0xfffefdfc, 0x7f7f7f7f]
            req['pixels'] = edge + [r.getrandbits(32) for _ in range(20000)]
        res = ctx.call(req)
        ctx.evaluations += 1
        if 'panic' in res or 'abort' in res:
            ctx.violation('texture:sweep:%s:panic' % name, str(res)[:300], {'format': name}); continue
        if 'err' in res: ctx.inconcl('sweep harness error: %s' % res['err']); continue
        ctx.count('pixels_swept', res['count'])
        ctx.seen('sweep_formats', '%s: %d values, %d distinct ARGB images' % (name, res['count'], res['distinct_argb']))
        if res['mismatch_count']:
            ctx.violation('texture:sweep:%s:lossy' % name, '%d of %d pixel values do not survive %s -> ARGB8888 -> %s; e.g. %s' % (res['mismatch_count'], res['count'], name, name, res['mismatches'][:3]),
                          {'format': name, 'mismatches': res['mismatches']})
        elif bpp < 4 and res['distinct_argb'] != res['count']:
            ctx.violation('texture:sweep:%s:not-injective' % name, 'only %d distinct ARGB values for %d pixel values' % (res['distinct_argb'], res['count']), {'format': name})
        else: ctx.fp('sweep', name)

COLORKEY = {}     # path -> colour key requested for the entries of the case being built (old-header games only)

def entry_text(game, path, w, h, fmt, ox, oy, new):
    rt = lambda n: max(1, 1 << (n - 1).bit_length())
    f = ['path: "%s"' % path, 'has_data: "dummy"', 'img_width: %d' % w, 'img_height: %d' % h, 'img_format: %d' % fmt,
         'rt_width: %d' % rt(w + ox), 'rt_height: %d' % rt(h + oy), 'rt_format: %d' % fmt, 'memory_priority: 0', 'sprites: {}']
    if new: f += ['offset_x: %d' % ox, 'offset_y: %d' % oy, 'low_res_scale: false']
    else: f += ['colorkey: %d' % COLORKEY.get(path, 0)]
    return 'entry { %s }\n' % ', '.join(f)

def make_anm(ctx, game, specs, name, textures):
    """Compile a skeleton with dummy data, then overwrite the texture bytes.  specs: [(path,w,h,fmt,ox,oy)]"""
    new = game in GAMES_NEW
    text = ''.join(entry_text(game, *sp, new) for sp in specs)
    src = ctx.write(name + '.txt', text); out = os.path.join(ctx.dir, name)
    c = ctx.cli({'tool': 'anm', 'cmd': 'compile', 'game': game, 'in': src, 'out': out})
    if not c.get('ok'): return None, c
    data = bytearray(ctx.read(out))
    ents = L.parse_anm(bytes(data), game)
    if len(ents) != len(specs): return None, {'diag': 'skeleton has %d entries' % len(ents)}
    for e, sp, tex in zip(ents, specs, textures):
        t = e['thtx']
        if t is None or t['size'] != len(tex) or (t['width'], t['height'], t['format']) != (sp[1], sp[2], sp[3]):
            return None, {'diag': 'skeleton texture mismatch %s vs %s' % (t and (t['width'], t['height'], t['format'], t['size']), sp)}
        data[t['data_offset']:t['data_offset'] + len(tex)] = tex
    ctx.write(name, bytes(data))
    return out, None

def textures_of(ctx, path, game):
    d = ctx.read(path)
    if d is None: return None
    return [(e['path'].decode('latin1'), e['thtx'] and (e['thtx']['width'], e['thtx']['height'], e['thtx']['format'], e['thtx']['data'])) for e in L.parse_anm(d, game)]

def rand_tex(r, n, mode):
    if mode == 'random': return bytes(r.getrandbits(8) for _ in range(n))
    if mode == 'ramp': b = r.randrange(256); return bytes((b + i) & 0xff for i in range(n))
    if mode == 'extremes': return bytes(r.pick([0, 255, 1, 254, 0x80, 0x7f]) for _ in range(n))
    return bytes([r.randrange(256)]) * n

def gen_specs(r, game):
    new = game in GAMES_NEW
    specs = []
    paths = ['a.png', 'sub/b.png', 'c d.png', 'x/@y.png', 'deep/er/e.png']   # ('@...' paths are virtual files, which never carry textures)
    for i in range(r.randint(1, 4)):
        if specs and r.chance(0.3): path = r.pick(specs)[0]
        else: path = r.pick(paths)
        fmt = r.pick([1, 3, 5, 7])
        w, h = (r.randint(1, 64), r.randint(1, 64)) if r.chance(0.8) else (r.pick([1, 2, 64, 128, 256]), r.pick([1, 2, 64]))
        ox, oy = (r.randint(0, 8), r.randint(0, 8)) if new and r.chance(0.6) else (0, 0)
        same = [s for s in specs if s[0] == path]
        if same: _, w, h, fmt, ox, oy = same[0]      # entries sharing a path share the image file, hence its geometry
        specs.append((path, w, h, fmt, ox, oy))
    return specs

def compile_with(ctx, game, text, sources, out, npragma=0):
    pr = ''.join('#pragma image_source "%s"\n' % s for s in sources[:npragma])
    src = ctx.write('re.txt', pr + text)
    if os.path.exists(out): os.unlink(out)
    return ctx.cli({'tool': 'anm', 'cmd': 'compile', 'game': game, 'in': src, 'out': out, 'images': sources[npragma:]})

def compare(ctx, sig, got, want, replay, what):
    """got: [(path, (w,h,fmt,data))]; want: [data or None(not judged)]"""
    for i, ((path, t), w) in enumerate(zip(got, want)):
        if w is None: continue
        if t is None:
            ctx.violation(sig + ':texture-missing', '%s: entry %d (%s) has no texture' % (what, i, path), replay); return False
        if t[3] != w:
            nd = sum(1 for a, b in zip(t[3], w) if a != b)
            first = next((k for k, (a, b) in enumerate(zip(t[3], w)) if a != b), None)
            ctx.violation(sig + ':bytes-differ', '%s: entry %d (%s, %dx%d format %d): %d of %d bytes differ (first at %s: %s != %s), lengths %d/%d' % (
                what, i, path, t[0], t[1], t[2], nd, len(w), first, t[3][first:first + 4].hex() if first is not None else '', w[first:first + 4].hex() if first is not None else '', len(t[3]), len(w)), replay)
            return False
        ctx.count('entries_compared')
    return True

def case(ctx, r, specs=None, textures=None, tag=''):
    game = r.pick(GAMES_OLD + GAMES_NEW * 2) if specs is None else 'th12'
    if specs is None:
        specs = gen_specs(r, game)
        textures = [rand_tex(r, s[1] * s[2] * FORMATS[s[3]][1], r.wpick([('random', 6), ('ramp', 2), ('extremes', 2), ('flat', 1)])) for s in specs]
    ctx.evaluations += 1
    COLORKEY.clear()
    if game in GAMES_OLD and r.chance(0.6):
        # a colour key that matches pixels of the texture itself (transparent-colour entries of the old games): extraction and
        # re-import must still reproduce the bytes, whatever the key means to the game
        for sp, tx in zip(specs, textures):
            bpp = FORMATS[sp[3]][1]; px = tx[:bpp]
            if sp[3] == 1: key = (px[2] << 16) | (px[1] << 8) | px[0]
            elif sp[3] == 5: v = px[0] | (px[1] << 8); key = (((v >> 8) & 15) * 17 << 16) | (((v >> 4) & 15) * 17 << 8) | ((v & 15) * 17)
            else: key = r.pick([0xff00ff, 0x000000, 0x123456])
            COLORKEY[sp[0]] = key if r.chance(0.8) else r.pick([0xff00ff, 1])
        ctx.count('cases_with_colorkey')
    replay = {'game': game, 'specs': specs, 'colorkeys': dict(COLORKEY), 'textures_hex': [t.hex() if len(t) <= 4096 else t[:4096].hex() + '...' for t in textures]}
    for d in ('ex', 'exB'):
        shutil.rmtree(os.path.join(ctx.dir, d), ignore_errors=True)
    orig, err = make_anm(ctx, game, specs, 'orig.anm', textures)
    if orig is None:
        ctx.count('skeleton_rejected'); ctx.seen('skeleton_reject', core.norm_msg(core.headline(err.get('diag', '')))[:80]); return
    # decompile the original
    dec = os.path.join(ctx.dir, 'dec.txt')
    c = ctx.cli({'tool': 'anm', 'cmd': 'decompile', 'game': game, 'in': orig, 'out': dec})
    if not c.get('ok'):
        if 'panic' in c or 'abort' in c: ctx.inconcl('decompile crash (C04)'); return
        ctx.violation('texture:decompile-fails', c.get('diag', '')[:300], replay); return
    text = ctx.read(dec).decode('utf-8')
    # 1. extract + compile -i dir
    exdir = os.path.join(ctx.dir, 'ex'); os.mkdir(exdir)
    c = ctx.cli({'tool': 'anm', 'cmd': 'extract', 'game': game, 'in': orig, 'out': exdir})
    if not c.get('ok'):
        if 'panic' in c or 'abort' in c: ctx.violation('texture:extract:panic:%s' % core.panic_sig(c), str(c)[:300], replay); return
        ctx.violation('texture:extract-fails:%s' % core.norm_msg(core.headline(c.get('diag', '')))[:50], c.get('diag', '')[:300], replay); return
    out = os.path.join(ctx.dir, 're.anm')
    c = compile_with(ctx, game, text, [exdir], out)
    # entries sharing a path all load the single extracted file, which holds the last one written
    lastbypath = {}
    for sp, t in zip(specs, textures): lastbypath[sp[0]] = t
    dups = len(set(s[0] for s in specs)) < len(specs)
    if not c.get('ok'):
        if 'panic' in c or 'abort' in c: ctx.violation('texture:compile-dir:panic:%s' % core.panic_sig(c), str(c)[:300], replay); return
        ctx.violation('texture:compile-dir-fails:%s' % core.norm_msg(core.headline(c.get('diag', '')))[:50], c.get('diag', '')[:300], replay); return
    got = textures_of(ctx, out, game)
    want = [(lastbypath[s[0]] if not dups else None) for s in specs]
    if dups:   # unjudged which of the duplicates the file holds, but it must be one of them
        for i, (sp, (gp, t)) in enumerate(zip(specs, got)):
            cands = [tx for s2, tx in zip(specs, textures) if s2[0] == sp[0]]
            if t is None or t[3] not in cands:
                ctx.violation('texture:dir:dup-path:bytes-differ', 'entry %d (%s): texture equals none of the original textures with that path' % (i, sp[0]), replay); return
    if not compare(ctx, 'texture:dir%s' % tag, got, want, replay, 'extract + compile -i dir'): return
    ctx.count('roundtrip_dir')
    # 2. compile -i original.anm : verbatim, duplicates in order
    strip = r.chance(0.3)
    text2 = text
    if strip:
        import re
        text2 = re.sub(r'^\s*(img_width|img_height|img_format|offset_x|offset_y|rt_width|rt_height|rt_format|memory_priority|low_res_scale|colorkey):.*\n', '', text, flags=re.M)
    c = compile_with(ctx, game, text2, [orig], out, npragma=r.randint(0, 1))
    if not c.get('ok'):
        if 'panic' in c or 'abort' in c: ctx.violation('texture:compile-anm:panic:%s' % core.panic_sig(c), str(c)[:300], replay); return
        ctx.violation('texture:compile-anm-fails:%s' % core.norm_msg(core.headline(c.get('diag', '')))[:50], c.get('diag', '')[:300], dict(replay, stripped=strip)); return
    got = textures_of(ctx, out, game)
    if not compare(ctx, 'texture:anm-source%s' % ('-stripped' if strip else ''), got, list(textures), replay, 'compile -i original.anm'): return
    ctx.count('verbatim_anm')
    if strip: ctx.count('verbatim_anm_fields_from_source')
    # 3. orderings of up to three sources with different bytes
    if tag: return
    variants = {}
    def variant(k):
        if k not in variants:
            tx = [rand_tex(r, len(t), 'random') for t in textures]
            keep = [i for i in range(len(specs)) if r.chance(0.75)] or [0]      # a source may lack some entries
            p, err = make_anm(ctx, game, [specs[i] for i in keep], 'var%s.anm' % k, [tx[i] for i in keep])
            if p is None: return None
            variants[k] = (p, keep, tx)
        return variants[k]
    srcs = []
    for k in range(r.randint(2, 3)):
        kind = r.pick(['anm', 'anm', 'dir'])
        v = variant(r.pick('AB'))
        if v is None: ctx.inconcl('variant skeleton rejected'); return
        p, keep, tx = v
        if kind == 'anm': srcs.append(('anm', p, keep, tx))
        else:
            d = p + '.dir'
            if not os.path.isdir(d):
                os.mkdir(d)
                c = ctx.cli({'tool': 'anm', 'cmd': 'extract', 'game': game, 'in': p, 'out': d})
                if not c.get('ok'): ctx.inconcl('variant extract failed'); return
            srcs.append(('dir', d, keep, tx))
    # always make sure everything is supplied by something: the original goes first
    srcs.insert(0, ('anm', orig, list(range(len(specs))), textures))
    # model
    assigned = [None] * len(specs)
    for kind, p, keep, tx in srcs:
        if kind == 'anm':
            queues = {}
            for i in keep: queues.setdefault(specs[i][0], []).append(tx[i])
            for j, sp in enumerate(specs):
                q = queues.get(sp[0])
                if q: assigned[j] = q.pop(0)
        else:
            last = {}
            for i in keep: last[specs[i][0]] = tx[i]; 
            dup_in_src = len(set(specs[i][0] for i in keep)) < len(keep)
            for j, sp in enumerate(specs):
                if sp[0] in last:
                    npath = sum(1 for i in keep if specs[i][0] == sp[0])
                    assigned[j] = last[sp[0]] if npath == 1 else ('one-of', [tx[i] for i in keep if specs[i][0] == sp[0]])
    npr = r.randint(0, len(srcs))
    c = compile_with(ctx, game, text, [s[1] for s in srcs], out, npragma=npr)
    order_desc = [('%s:%s' % (s[0], os.path.basename(s[1]))) for s in srcs]
    replay2 = dict(replay, sources=order_desc, pragmas=npr)
    if not c.get('ok'):
        if 'panic' in c or 'abort' in c: ctx.violation('texture:compile-multi:panic:%s' % core.panic_sig(c), str(c)[:300], replay2); return
        ctx.violation('texture:compile-multi-fails:%s' % core.norm_msg(core.headline(c.get('diag', '')))[:50], c.get('diag', '')[:300], replay2); return
    got = textures_of(ctx, out, game)
    want = []
    for j, a in enumerate(assigned):
        if isinstance(a, tuple):
            if got[j][1] is None or got[j][1][3] not in a[1]:
                ctx.violation('texture:ordering:dup-path:bytes-differ', 'entry %d (%s): texture is none of the candidates of the winning directory source; sources %s' % (j, specs[j][0], order_desc), replay2); return
            want.append(None)
        else: want.append(a)
    if not compare(ctx, 'texture:ordering', got, want, replay2, 'sources %s (first %d as pragma)' % (order_desc, npr)): return
    ctx.count('orderings')
    ctx.seen('source_kinds', ' '.join(s[0] for s in srcs))
    if any(len(set(t)) >= 2 for t in textures):
        ctx.fp('case', json.dumps([specs, order_desc]))
    ctx.sample({'game': game, 'entries': [(s[0], '%dx%d' % (s[1], s[2]), FORMATS[s[3]][0], 'offset %d,%d' % (s[4], s[5])) for s in specs], 'sources': order_desc}, cap=2)
    for k, (p, keep, tx) in variants.items():
        shutil.rmtree(p + '.dir', ignore_errors=True)

def run_shard(ctx):
    r = ctx.rng
    if ctx.shard == 0:
        sweep(ctx)
    if ctx.shard in (1, 2, 3):
        # every 16-bit / 8-bit pixel value, end to end, in shuffled order
        fmt = {1: 3, 2: 5, 3: 7}[ctx.shard]
        bpp = FORMATS[fmt][1]
        vals = list(range(1 << (8 * bpp))); r.shuffle(vals)
        side = 256 if bpp == 2 else 16
        tex = b''.join(v.to_bytes(bpp, 'little') for v in vals)
        case(ctx, r, specs=[('all.png', side, side, fmt, 3, 5)], textures=[tex], tag=':all-values')
        ctx.count('pixels_swept', len(vals))
    n = SIZES[ctx.tier] // ctx.nshards + 1
    for i in range(n):
        case(ctx, r)

def replay(path):
    rec = json.load(open(path)); print(json.dumps(rec, indent=1)[:3000]); return 0
