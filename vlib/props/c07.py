"""C07 - recovering loops and conditionals while decompiling preserves behaviour."""
import json
from .. import core, testlang as TL, lowering as LW
from ..gensrc import gen_body, gen_stream, gen_near_structured

META = {
    'level': 'exploration',
    'rule': 'instruction streams I obtained by lowering (a) generated structured bodies, (b) G-stream flat programs with random forward/backward/overlapping jumps and (c) near-structured streams: the flat forms of nested if/else-if chains, while/do-while loops and loops with breaks with 0-2 perturbations (jump retargeted, label moved, goto dropped, jump duplicated), '
            'shared end labels, multi-referrer labels, explicit-time jumps, interrupt labels; I is raised with block recovery off (A0) and on (A1, + postprocess); '
            'AstVm traces of A0 and A1 must agree from N states and lower(A1) == lower(A0) == I bytewise; distinct = hash(shape, features); non-trivial = >= 1 jump',
    'assumptions': ['AstVm is the semantics of both decompiled forms', 'when A1 jumps into a nested block the comparison runs on desugar(A1) (relies on C06; counted as via_desugar)'],
    'floors': {'streams': 50, 'near_structured_streams': 50, 'runs_compared': 300, 'with_recovered_blocks': 20},
}
SIZES = {'quick': 9000, 'thorough': 80000}

def make_req(cfg, body, states):
    ri, rf = LW.all_regs()
    return {'op': 'vm_blocks', 'lang': cfg.lang(), 'mapfile': cfg.mapfile(), 'body': body, 'states': states, 'difficulties': [0],
            'check_regs': ri + rf, 'compare_time': True, 'max_iter': 4000}

BLOCK_WORDS = ('loop {', 'while (', 'do {', 'if (', 'unless (', 'times(', 'else')

def judge_resp(ctx, cfg, text, states, resp, kind, shape, used, minimise=True):
    if 'abort' in resp or 'inconclusive' in resp:
        ctx.inconcl('worker-' + str(resp.get('abort') or resp.get('inconclusive'))); return
    if 'panic' in resp:
        ctx.violation('structuring:panic:' + core.panic_sig(resp['panic']), resp['panic']['msg'], {'req': make_req(cfg, text, states[:1])}); return
    if resp.get('stage') != 'done':
        st = resp.get('stage')
        if st in ('raise_flat', 'raise_blocks'):
            ctx.violation('structuring:raise-error:' + core.norm_msg(core.headline(resp.get('diag', ''))), resp.get('diag', '')[:500], {'req': make_req(cfg, text, states[:1])})
        else:
            ctx.count('rejected'); ctx.seen('reject_reasons', core.norm_msg(core.headline(resp.get('diag', ''))) + ' @' + str(st))
        return
    if resp.get('compile_diag', '').strip():
        ctx.count('compiled_with_warnings')
    ctx.evaluations += 1; ctx.count('streams'); ctx.count('streams_' + kind)
    bt = resp.get('block_text', '')
    recovered = any(w in bt for w in BLOCK_WORDS)
    if recovered: ctx.count('with_recovered_blocks')
    if resp.get('via_desugar'): ctx.count('via_desugar')
    problems = []
    # structural: the block form recompiles to exactly what the flat form recompiles to
    # (whether that equals the original instructions is C01's business: constant conditions are re-folded on recompilation)
    if resp.get('relower_flat_ok') and resp.get('relower_blocks_ok') and resp.get('relower_blocks') != resp.get('relower_flat'):
        problems.append(('block-form-recompiles-differently-from-flat-form', 'lower(raise(I, blocks)) != lower(raise(I, no blocks))'))
    if resp.get('relower_flat_ok') and not resp.get('relower_blocks_ok'):
        # block recovery produced text that no longer compiles although the flat rendering of the same instructions does
        # (e.g. a label swallowed by an if/else chain while something still refers to it): the structured form has no behaviour at all
        ctx.count('block_form_does_not_recompile_but_flat_does'); ctx.seen('block_recompile_errors', core.norm_msg(core.headline(resp.get('relower_diag') or '')))
        problems.append(('block-form-does-not-recompile', 'lower(raise(I, blocks)) fails (%s) while lower(raise(I, no blocks)) succeeds' % core.norm_msg(core.headline(resp.get('relower_diag') or ''))[:100]))
    if resp.get('relower_flat') == resp.get('orig'): ctx.count('recompiles_to_original')
    if not resp.get('relower_flat_ok'): ctx.count('flat_form_does_not_recompile'); ctx.seen('flat_recompile_errors', core.norm_msg(core.headline(resp.get('relower_diag') or '')))
    ncmp = 0
    # AstVm resets the time at block boundaries to the block's label time; that equals the flat semantics only while the time never
    # runs ahead of the statement labels, i.e. not after a jump with an explicit time != its label's time.  Those streams are
    # decided by the (exact) structural oracle above only.
    vm_runs = resp['runs'] if 'goto_time' not in used else []
    if 'goto_time' in used: ctx.count('streams_decided_structurally_only')
    for run in vm_runs:
        stt = run['status']
        if stt == 'eq': ncmp += 1; ctx.count('runs_compared')
        elif stt in ('src_panic', 'src_nan'): ctx.count('runs_source_side_undefined'); ctx.seen('source_side_panics', core.norm_msg(run.get('msg', 'nan')))
        elif stt == 'new_panic' and 'not implemented' in (run.get('msg') or ''): ctx.count('runs_vm_cannot_execute')
        else:
            detail = run.get('detail') or run.get('msg') or ''
            problems.append(('vm-' + ('panic' if stt == 'new_panic' else detail.split(' ')[0].rstrip(':').split('[')[0]), '%s: %s' % (stt, detail)))
            break
    for tag, desc in problems:
        small = text
        if minimise:
            def fails(t, tag=tag):
                rr = ctx.call(make_req(cfg, t, states[:2]))
                if rr.get('stage') != 'done': return False
                if tag == 'block-form-does-not-recompile': return rr.get('relower_flat_ok') and not rr.get('relower_blocks_ok')
                if tag.startswith('vm-'): return any(x['status'] in ('diff', 'new_panic') and 'not implemented' not in (x.get('msg') or '') for x in rr.get('runs', []))
                return rr.get('relower_flat_ok') and rr.get('relower_blocks_ok') and rr.get('relower_blocks') != rr.get('relower_flat')
            small = LW.minimise_lines(text, fails)
        ctx.violation('structuring:%s:%s' % (tag, LW.shape_of(small)), desc,
                      {'req': make_req(cfg, small, states[:2]), 'original_body': text, 'flat_text': resp.get('flat_text'), 'block_text': bt, 'relower_diag': resp.get('relower_diag')})
    for f in used: ctx.seen('features', f)
    if ncmp and ('goto' in resp.get('flat_text', '')):
        ctx.fp(kind, tuple(shape), tuple(sorted(used)))
    ctx.sample({'kind': kind, 'source': text[:400], 'flat': resp.get('flat_text', '')[:500], 'blocks': bt[:500]}, cap=2)

def run_shard(ctx):
    r = ctx.rng
    n = SIZES[ctx.tier] // ctx.nshards + 1
    nstates = 5 if ctx.tier == 'quick' else 10
    ri, rf = LW.all_regs()
    for i in range(n):
        cfg = TL.Config(r, pools='large', two_part_cmp=False)
        cfg.two_part_cmp = False
        if r.chance(0.5):
            feats = {'arith', 'locals', 'assign_ops', 'calls', 'if', 'while', 'dowhile', 'times', 'times_clobber', 'loop', 'break', 'block', 'countjump',
                     'timelabels', 'logic_cond', 'goto', 'condjump'}
            for x in list(feats):
                if r.chance(0.1): feats.discard(x)
            env = LW.tl_env(cfg, feats, r)
            env.nonconst_conds = True
            if not env.int_vars: env.int_vars = [env.extra_int[1]]
            body = gen_body(r, env, sentinel='ins_101();', max_depth=r.pick([1, 2, 3, 4]), max_stmts=r.pick([3, 6, 10]), expr_depth=1)
            states = LW.gen_states(r, body, nstates, ri, rf)
            text, kind, shape, used = body.text, 'structured', body.shape, body.used
        else:
            feats = {'timelabels', 'interrupt', 'countjump', 'goto_time', 'logic_cond', 'labelref'}
            for x in list(feats):
                if r.chance(0.25): feats.discard(x)
            env = LW.tl_env(cfg, feats)
            counters = [(t, g) for (t, g) in env.int_vars[2:4]] + [(t, g) for (t, g) in env.extra_int[1:3]]
            env.int_vars = env.int_vars[:2] + env.extra_int[:1]
            if r.chance(0.5):
                stm = gen_near_structured(r, env, counters, feats=feats); ctx.count('near_structured_streams')
            else:
                stm = gen_stream(r, env, counters, n_slots=r.pick([5, 8, 12, 18]), feats=feats)
            class B: count_regs = set()
            states = LW.gen_states(r, B, nstates, ri, rf)
            text, kind, shape, used = stm.text, 'stream', stm.shape, stm.used | {'back' if stm.nback else 'fwd-only'}
        resp = ctx.call(make_req(cfg, text, states))
        judge_resp(ctx, cfg, text, states, resp, kind, shape, used)

def replay(path):
    rec = json.load(open(path))
    w = core.Worker('dev'); resp = w.call(rec['req']); w.close()
    print(json.dumps(resp, indent=1)[:6000])
    bad = 'panic' in resp or any(x['status'] in ('diff', 'new_panic') for x in resp.get('runs', [])) or (resp.get('relower_blocks_ok') and resp.get('relower_flat_ok') and resp.get('relower_blocks') != resp.get('relower_flat'))
    if bad: print('VIOLATION property=C07 replay=%s' % path)
    return 1 if bad else 0
