"""C08 - printed scripts parse back to the same script at every line width."""
import json, os, struct
from .. import core, formats, corpus, testlang as TL, lowering as LW
from ..gensrc import gen_body

META = {
    'level': 'exploration',
    'rule': 'x ranges over ASTs from (a) parsing generated files of every format, (b) the same after const_simplify (negative / folded literals, inf, nan), (c) decompiler output of corpus '
            'binaries, (d) directly built expression ASTs the parser cannot produce (negative literals in every radix format, every f32 class incl. NaN payloads, nested unary minus, '
            'difficulty switches with holes, strings with escapes / control / multi-byte characters); per x and width w: parse(fmt(x,w)) succeeds, canon(x)==canon(reparsed), fmt is idempotent. '
            'distinct = hash(text, width); non-trivial = text has >= 3 statements',
    'assumptions': ['canon = Debug rendering with spans / node, res, loop ids / int display formats removed, -<literal> folded, floats compared by bits (harness/src/canon.rs)'],
    'floors': {'roundtrips_ok': 500, 'widths_seen': 6, 'built_ast_cases': 50},
}
SIZES = {'quick': 4500, 'thorough': 40000}

def fbits(x): return struct.unpack('<I', struct.pack('<f', x))[0]

INTS = [0, 1, -1, 2, -2, 7, -7, 255, -255, 256, 65535, -65536, 2147483647, -2147483647, -2147483648, 0x7fffffff, 123456789, -123456789]
FMTS = ['signed', 'unsigned', 'hex', 'bin', 'bool', 'signed_hex']
FLOATS = [0x00000000, 0x80000000, 0x3f800000, 0xbf800000, 0x00000001, 0x80000001, 0x007fffff, 0x00800000, 0x7f7fffff, 0xff7fffff, 0x7f800000, 0xff800000,
          0x7fc00000, 0xffc00000, 0x7fc00001, 0xffffffff, 0x7f800001, 0x3dcccccd, 0x3e99999a, 0x4b800000, 0x4b7fffff, 0x5f000000, 0x2f000000, 0x40490fdb, 0x3fc00000, 0x3c23d70a, 0x461c4000]
STRS = ['', 'a', 'a b', 'quote"q', 'back\\slash', 'nl\nnl', 'cr\rcr', 'tab\tt', 'nul\0nul', 'こんにちは', 'ｶﾀｶﾅ', 'mixed é ü', '\x01\x02', '\x7f', '"', '\\', '\\n', 'end\\', '{}', '/* c */', '// c', 'é' * 50]

def built_cases(r):
    """(template block text, build specs)"""
    def lit_i(): return {'int': r.pick(INTS), 'fmt': r.pick(FMTS)}
    def lit_f(): return {'fbits': r.pick(FLOATS)}
    def e_int(d):
        if d <= 0 or r.chance(0.3): return r.pick([lit_i, lambda: {'reg': 10000 + r.randint(0, 3)}])()
        k = r.pick(['un', 'un', 'bin', 'tern', 'diff'])
        if k == 'un': return {'un': [r.pick(['-', '-', '~', '!']), e_int(d - 1)]}
        if k == 'bin': return {'bin': [e_int(d - 1), r.pick(['+', '-', '*', '/', '%', '==', '<', '&', '|', '^', '<<', '>>', '>>>', '&&', '||']), e_int(d - 1)]}
        if k == 'tern': return {'tern': [e_int(d - 1), e_int(d - 1), e_int(d - 1)]}
        n = r.randint(2, 5)
        return {'diff': [e_int(d - 1)] + [None if r.chance(0.3) else e_int(d - 1) for _ in range(n - 1)]}
    def e_float(d):
        if d <= 0 or r.chance(0.3): return r.pick([lit_f, lambda: {'reg': 10004 + r.randint(0, 3)}])()
        k = r.pick(['un', 'bin', 'fn'])
        if k == 'un': return {'un': ['-', e_float(d - 1)]}
        if k == 'bin': return {'bin': [e_float(d - 1), r.pick(['+', '-', '*', '/', '%']), e_float(d - 1)]}
        return {'un': [r.pick(['sin', 'cos', 'sqrt']), e_float(d - 1)]}
    builds, lines = [], []
    for _ in range(r.randint(1, 6)):
        k = r.pick(['i', 'i', 'f', 's', 'call'])
        if k == 'i':
            builds.append(e_int(r.randint(0, 3))); lines.append('REG[10000] = __B(%d);' % (len(builds) - 1))
        elif k == 'f':
            builds.append(e_float(r.randint(0, 3))); lines.append('REG[10004] = __B(%d);' % (len(builds) - 1))
        elif k == 's':
            builds.append({'str': r.pick(STRS)}); lines.append('ins_77(__B(%d));' % (len(builds) - 1))
        else:
            builds.append(e_int(1)); builds.append(e_float(1)); lines.append('ins_78(__B(%d), __B(%d), @mask=__B(%d));' % (len(builds) - 2, len(builds) - 1, len(builds) - 2) if r.chance(0.2) else 'ins_78(__B(%d), __B(%d));' % (len(builds) - 2, len(builds) - 1))
        if r.chance(0.3): lines.append(r.pick(['+5:', '-3:', '10:', 'lbl%d:' % len(lines), 'interrupt[3]:', '{"EN"}: ins_5();']))
    # prefix operators in front of operands that are only reachable from text: calls, enum constants, pre-/post-increment, label properties,
    # names that start with the letters of the legacy `!ENHL...` difficulty syntax
    if r.chance(0.35):
        ops = ['! ', '- ', '~ ']      # (spaced in the source, so that the source itself is lexed as intended; what the formatter prints is the question)
        rands = ['Easy(3)', 'Ex', 'N', 'Hard(1, 2)', 'Lunatic', 'W', 'X()', 'O', 'E.foo', 'Color.Red', '--REG[10000]', '++REG[10001]', 'timeof(lbl0)', 'offsetof(lbl0)', 'x4', 'f(-1)', '_S(1.5)', 'sin(1.0)',
                 '(-3)', '(--REG[10000])', '4', '77', '(-5)', '(! Ex)', '(1:2:3)', '(REG[10000] ? 1 : 2)', '"str"', 'REG[10000]--', 'REG[10000]++']
        for _ in range(r.randint(1, 4)):
            e = r.pick(ops) + r.pick(rands)
            if r.chance(0.3): e = r.pick(ops) + '(' + e + ')'
            if r.chance(0.3): e = '%s %s %s' % (e, r.pick(['+', '-', '*', '&&', '==']), r.pick(ops) + r.pick(rands))
            lines.append(r.pick(['REG[10000] = %s;', 'ins_77(%s);', 'if (%s) goto lbl0;', 'ins_78(1, %s);']) % e)
        lines.append('lbl0:')
    return '{\n' + '\n'.join(lines) + '\n}', builds

def judge(ctx, kind, text, resp, req):
    if 'abort' in resp or 'inconclusive' in resp:
        ctx.inconcl('worker'); return
    if 'panic' in resp:
        ctx.violation('fmt:panic:' + core.panic_sig(resp['panic']), resp['panic']['msg'][:300], {'req': req}); return
    if resp.get('stage') != 'done':
        ctx.count('unparsable_inputs'); ctx.seen('unparsable_reasons', kind + ':' + core.norm_msg(core.headline(resp.get('diag', '')))[:70]); return
    for res in resp['results']:
        ctx.evaluations += 1
        st = res['status']
        if st == 'ok':
            ctx.count('roundtrips_ok'); ctx.seen('widths_seen', res['w'])
            if kind == 'built': ctx.count('built_ast_cases')
            if text.count(';') >= 3: ctx.fp(hash(text), res['w'])
            ctx.counters['max_line_over_width'] = max(ctx.counters.get('max_line_over_width', 0), 0)
        else:
            what = res.get('detail') or res.get('diag') or (res.get('panic') or {}).get('msg') or ''
            tagsrc = res.get('diag') or res.get('detail') or ''
            tag = core.norm_msg(core.headline(tagsrc))[:60] if st == 'reparse_error' else classify(res)
            if st == 'float_bits_differ':
                def isnan(b): return (b & 0x7f800000) == 0x7f800000 and (b & 0x7fffff) != 0
                tag = 'nan-payload-or-sign' if res.get('pairs') and all(isnan(a) and isnan(b) for a, b in res['pairs']) else 'float-bits'
                what = 'float literal bits changed: ' + ', '.join('%#010x -> %#010x' % (a, b) for a, b in res.get('pairs', [])[:4])
            if st == 'not_idempotent' and ('2147483648' in (res.get('text') or '') or '2147483648' in (res.get('text2') or '')): tag = 'int-min'
            if st == 'not_idempotent' and '-INF' in (res.get('text') or '') and '(-INF)' in (res.get('text2') or ''): tag = 'neg-inf'
            sigkind = 'any' if tag in ('nan-payload-or-sign', 'int-min', 'neg-inf') else kind
            ctx.violation('fmt:%s:%s:%s' % (sigkind, st, tag), str(what)[:600], {'req': dict(req, widths=[res['w']]), 'printed': (res.get('text') or '')[:3000], 'printed2': (res.get('text2') or '')[:1500]})
    ctx.count('inputs_' + kind)
    ctx.sample({'kind': kind, 'text': text[:400], 'widths': [x['w'] for x in resp['results']], 'statuses': [x['status'] for x in resp['results']]}, cap=3)

def classify(res):
    d = res.get('detail') or ''
    for key in ('LitFloat', 'LitInt', 'LitString', 'UnOp', 'BinOp', 'Ternary', 'DiffSwitch', 'Label', 'Meta', 'Call'):
        if key in d: return key
    if res['status'] == 'fmt_panic': return core.norm_msg((res.get('panic') or {}).get('msg', ''))[:50]
    return 'other'

def run_shard(ctx):
    r = ctx.rng
    tables = formats.SigTables(ctx)
    n = SIZES[ctx.tier] // ctx.nshards + 1
    corp = [e for i, e in enumerate(corpus.bundled()) if i % ctx.nshards == ctx.shard]
    allw = list(range(1, 201))
    done = 0
    while done < n:
        k = r.wpick([('file', 3), ('file-simplified', 2), ('decompiled', 2), ('built', 4), ('tl-body', 2)])
        widths = sorted(set([1, 2, 80] + [r.pick(allw) for _ in range(3)])) if ctx.tier == 'quick' or r.chance(0.9) else allw
        if k in ('file', 'file-simplified'):
            gf = formats.gen_any(r, tables)
            req = {'op': 'fmt_rt', 'kind': 'file', 'text': gf.text, 'widths': widths, 'simplify': k == 'file-simplified'}
            judge(ctx, k, gf.text, ctx.call(req), req)
        elif k == 'tl-body':
            cfg = TL.Config(r)
            body = gen_body(r, LW.tl_env(cfg, LW.feats_for(cfg, r) | {'goto_time', 'neg_time', 'difflabels'}, r), max_depth=r.pick([1, 3, 5]), max_stmts=r.pick([3, 8]), expr_depth=r.pick([2, 4]))
            req = {'op': 'fmt_rt', 'kind': 'block', 'text': body.text, 'widths': widths, 'simplify': r.chance(0.4)}
            judge(ctx, k, body.text, ctx.call(req), req)
        elif k == 'built':
            text, builds = built_cases(r)
            req = {'op': 'fmt_rt', 'kind': 'block', 'text': text, 'widths': widths, 'build': builds}
            judge(ctx, 'built', text + json.dumps(builds), ctx.call(req), req)
        else:
            if r.chance(0.5) or not corp: corp += corpus.compile_generated(ctx, tables, 3)
            if not corp: continue
            e = r.pick(corp)
            b = ctx.write('c08.bin', e['data']); t = os.path.join(ctx.dir, 'c08.txt')
            dj = {'tool': e['tool'], 'cmd': 'decompile', 'game': e['game'], 'in': b, 'out': t, 'width': 80,
                  'dopts': {o: False for o in ('blocks', 'intrinsics', 'arguments', 'diff_switches', 'calls') if r.chance(0.2)}}
            if e.get('msg_mode'): dj['msg_mode'] = e['msg_mode']
            d = ctx.cli(dj)
            if not d.get('ok'): continue
            text = (ctx.read(t) or b'').decode('utf-8', 'replace')
            req = {'op': 'fmt_rt', 'kind': 'file', 'text': text, 'widths': widths}
            judge(ctx, 'decompiled', text, ctx.call(req), req)
        done += 1

def replay(path):
    rec = json.load(open(path))
    w = core.Worker('dev'); resp = w.call(rec['req']); w.close()
    print(json.dumps(resp, indent=1)[:5000])
    bad = 'panic' in resp or any(x['status'] != 'ok' for x in resp.get('results', []))
    if bad: print('VIOLATION property=C08 replay=%s' % path)
    return 1 if bad else 0
