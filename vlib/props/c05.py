"""C05 - scratch registers never collide with registers the script uses.

Invariant-at-a-hook monitor: the register allocator's event log (cfg(truth_verif) hook in
stackless.rs::assign_registers) is checked online against the *generator's* ground truth of
which registers the source mentions - not against truth's own bookkeeping."""
import json
from .. import core, testlang as TL, lowering as LW
from ..gensrc import gen_body, Env, INT, FLOAT

META = {
    'level': 'exploration',
    'rule': 'seeded bodies with k simultaneously-live locals/temporaries x scratch pools of every size 0..4 (TestLanguage) and the real ANM / '
            'EoSD,PCB,IN,PoFV,StB ECL register files; per body the allocator event log (PoolInit/Alloc/Free) is checked against the registers the '
            'generator wrote into the text; distinct = hash(statement shapes, pool sizes, language); non-trivial = at least one Alloc event or an expected refusal',
    'assumptions': ['general-purpose register sets per game are taken from the documented lists (README/comments), encoded independently in vlib/realenv.py',
                    'lexical lifetimes: a local holds its register until the end of its block'],
    'floors': {'alloc_events': 100, 'expected_refusals_observed': 3, 'directed_single_mention': 100},
}
SIZES = {'quick': 12000, 'thorough': 80000}

def judge(ctx, cfg, body, req, resp, langtag, general_use=None, pool_sizes=None):
    if 'abort' in resp or 'inconclusive' in resp:
        ctx.inconcl('worker-' + str(resp.get('abort') or resp.get('inconclusive'))); return
    if 'panic' in resp:
        ctx.count('compile_panics'); ctx.inconcl('compile-panic (reported by C04)'); return
    stage = resp.get('stage')
    if stage not in ('done', 'lower'):
        ctx.count('rejected_before_lowering'); ctx.seen('reject_reasons', core.norm_msg(core.headline(resp.get('diag', ''))))
        if body.shape and body.shape[0] == 'single-mention': ctx.count('directed_rejected'); ctx.seen('directed_reject_reasons', '%s %s: %s' % (langtag.split(':')[0], body.shape[1], core.norm_msg(core.headline(resp.get('diag', '')))[:60]))
        return
    ctx.evaluations += 1
    evs = resp.get('reg_events') or []
    nalloc = sum(1 for e in evs if e['ev'] == 'alloc')
    ctx.count('alloc_events', nalloc); ctx.count('free_events', sum(1 for e in evs if e['ev'] == 'free'))
    ctx.seen('languages', langtag)
    problems, allocated, hazards = LW.check_reg_events(cfg, body, resp, general_use=general_use)
    for h, regs in hazards: ctx.count('hazard_' + h)
    has_anti = body.anti_scratch
    ok = stage == 'done'
    diag = resp.get('diag', '')
    if ok:
        ctx.count('compiled')
        if has_anti and nalloc:
            problems.append(('anti-scratch-ignored', 'script contains a scratch-forbidding instruction and still got %d scratch registers' % nalloc, []))
        # static necessary condition: more simultaneously live locals than registers that can possibly be free
        for ty, idx in (((INT, 0), (FLOAT, 1)) if not any(p[0] == 'alloc-mentioned' for p in problems) else ()):
            avail = pool_sizes[idx] - len([r for r in body.mentioned if r in pool_sizes[2 + idx]])
            if body.max_live_locals[ty] > avail:
                problems.append(('too-few-registers-accepted', '%d %s locals are live at once but only %d registers can be free' % (body.max_live_locals[ty], ty, avail), []))
    else:
        if not core.has_error_diag(diag):
            problems.append(('refused-without-diagnostic', 'lowering failed without an error diagnostic', []))
        if 'script too complex' in diag: ctx.count('expected_refusals_observed'); ctx.count('refused_too_complex')
        elif 'scratch registers are disabled' in diag: ctx.count('expected_refusals_observed'); ctx.count('refused_anti_scratch')
        else: ctx.seen('other_refusals', core.norm_msg(core.headline(diag)))
    for tag, desc, regs in problems:
        if tag == 'alloc-mentioned':
            ctxs = set()
            for r in regs: ctxs |= set(body.mention_ctx.get(r, ['?']))
            sig = 'scratch-clash:alloc-mentioned:mentioned-in:' + '+'.join(sorted(ctxs))
        else:
            sig = 'scratch-clash:' + tag
        ctx.violation(sig, desc, {'req': req, 'lang': langtag, 'mentioned': sorted(body.mentioned), 'events': evs[:60], 'diag': diag[:1500]})
    if nalloc or not ok:
        ctx.fp(tuple(body.shape), langtag, cfg.tag() if cfg else '')
    ctx.sample({'lang': langtag, 'body': body.text[:500], 'events': evs[:12], 'compiled': ok}, cap=2)

def run_shard(ctx):
    from .. import realenv
    n = SIZES[ctx.tier] // ctx.nshards + 1
    r = ctx.rng
    for i in range(n):
        which = r.wpick([('tl', 5), ('anm', 2.5), ('ecl', 2.5)])
        directed = r.chance(0.25)
        if which == 'tl':
            cfg = TL.Config(r, pools='any')
            feats = LW.feats_for(cfg, r)
            env = LW.tl_env(cfg, feats, r)
            anti = r.chance(0.12)
            body = None
            if directed:
                # one register mentioned exactly once, in a chosen syntactic context, under register pressure
                nm = (lambda x: TL.NAMES[x]) if cfg.aliases else (lambda x: 'REG[%d]' % x)
                si, sf = cfg.scratch()
                body = LW.gen_single_mention(r, si, sf, TL.EXTRA_INT[1:] + TL.EXTRA_INT[:1], TL.EXTRA_FLOAT, nm)
                if body is not None: ctx.count('directed_single_mention'); ctx.seen('directed_contexts', body.shape[1])
            if body is None:
                body = gen_body(r, env, sentinel='ins_101();' + ('\nins_%d(%s);' % (TL.ANTI_SCRATCH, r.pick(['', '', '@blob=""'])) if anti else ''),
                                max_depth=r.pick([1, 2, 3]), max_stmts=r.pick([3, 6, 10]), expr_depth=r.pick([1, 2, 3, 4]))
                body.anti_scratch = anti
            LW.reconcile_mentions(ctx, body)
            req, resp = LW.run_case(ctx, cfg, body, 1, presimplify=r.chance(0.5), difficulties=(0,))
            si, sf = cfg.scratch()
            judge(ctx, cfg, body, req, resp, 'TL', pool_sizes=(len(si), len(sf), set(si), set(sf)))
        else:
            le = realenv.pick_lang(r, which)
            feats = realenv.feats_for(le, r)
            env = realenv.make_env(le, feats, r)
            anti = le.anti_scratch is not None and r.chance(0.12)
            body = None
            if directed:
                gi, gf = list(le.gp_int), list(le.gp_float)
                r.shuffle(gi); r.shuffle(gf)
                ctxs = [c for c in LW.MENTION_CONTEXTS if le.has_diff or 'diffswitch' not in c]
                if 'casts' not in feats: ctxs = [c for c in ctxs if c != 'cast']
                body = LW.gen_single_mention(r, gi[2:], gf[2:], gi[:2], gf[:2], lambda x: 'REG[%d]' % x, call_int='ins_2001', call_float='ins_2002',
                                             has_cast='casts' in feats, ctxs=ctxs, sentinel=le.sentinel)
                if body is not None: ctx.count('directed_single_mention'); ctx.seen('directed_contexts', body.shape[1])
            if body is None:
                body = gen_body(r, env, sentinel=le.sentinel + ('\nins_%d(%s);' % (le.anti_scratch, r.pick(['', '', '@blob=""'])) if anti else ''),
                                max_depth=r.pick([1, 2, 3]), max_stmts=r.pick([3, 6, 10]), expr_depth=r.pick([1, 2, 3]))
                body.anti_scratch = anti
            LW.reconcile_mentions(ctx, body, {})
            req = {'op': 'vm_lower', 'lang': le.lang, 'mapfile': le.mapfile, 'body': body.text, 'states': [], 'difficulties': [0],
                   'check_regs': [], 'presimplify': True}
            resp = ctx.call(req)
            gi, gf = le.gp_int, le.gp_float
            judge(ctx, None, body, req, resp, le.tag, general_use=set(gi) | set(gf), pool_sizes=(len(gi), len(gf), set(gi), set(gf)))

def replay(path):
    rec = json.load(open(path))
    w = core.Worker('dev'); resp = w.call(rec['req']); w.close()
    print(json.dumps({k: resp.get(k) for k in ('stage', 'diag', 'reg_events', 'new_text')}, indent=1)[:5000])
    class B: pass
    b = B(); b.mentioned = set(rec['mentioned'])
    problems, _, _h = LW.check_reg_events(None, b, resp, general_use=set(sum([e.get('general_use', []) for e in resp.get('reg_events', []) if e['ev'] == 'pool'], [])))
    if problems: print('VIOLATION property=C05 replay=%s' % path); return 1
    return 0
