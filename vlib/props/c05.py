"""C05 - scratch registers never collide with registers the script uses.

Invariant-at-a-hook monitor: the register allocator's event log (cfg(truth_verif) hook in
stackless.rs::assign_registers) is checked online against the *generator's* ground truth of
which registers the source mentions - not against truth's own bookkeeping."""
import json, os
from .. import core, testlang as TL, lowering as LW
from ..gensrc import gen_body, Env, INT, FLOAT

META = {
    'level': 'exploration',
    'rule': 'seeded bodies with k simultaneously-live locals/temporaries x scratch pools of every size 0..4 (TestLanguage) and the real ANM / '
            'EoSD,PCB,IN,PoFV,StB ECL register files; per body the allocator event log (PoolInit/Alloc/Free) is checked against the registers the '
            'generator wrote into the text; distinct = hash(statement shapes, pool sizes, language); non-trivial = at least one Alloc event or an expected refusal',
    'assumptions': ['general-purpose register sets per game are taken from the documented lists (README/comments), encoded independently in vlib/realenv.py',
                    'lexical lifetimes: a local holds its register until the end of its block'],
    'floors': {'alloc_events': 100, 'expected_refusals_observed': 3, 'directed_single_mention': 100},
}
SIZES = {'quick': 12000, 'thorough': 80000}

def judge(ctx, cfg, body, req, resp, langtag, general_use=None, pool_sizes=None):
    if 'abort' in resp or 'inconclusive' in resp:
        ctx.inconcl('worker-' + str(resp.get('abort') or resp.get('inconclusive'))); return
    if 'panic' in resp:
        ctx.count('compile_panics'); ctx.inconcl('compile-panic (reported by C04)'); return
    stage = resp.get('stage')
    if stage not in ('done', 'lower'):
        ctx.count('rejected_before_lowering'); ctx.seen('reject_reasons', core.norm_msg(core.headline(resp.get('diag', ''))))
        if body.shape and body.shape[0] == 'single-mention': ctx.count('directed_rejected'); ctx.seen('directed_reject_reasons', '%s %s: %s' % (langtag.split(':')[0], body.shape[1], core.norm_msg(core.headline(resp.get('diag', '')))[:60]))
        return
    ctx.evaluations += 1
    evs = resp.get('reg_events') or []
    nalloc = sum(1 for e in evs if e['ev'] == 'alloc')
    ctx.count('alloc_events', nalloc); ctx.count('free_events', sum(1 for e in evs if e['ev'] == 'free'))
    ctx.seen('languages', langtag)
    problems, allocated, hazards = LW.check_reg_events(cfg, body, resp, general_use=general_use)
    for h, regs in hazards: ctx.count('hazard_' + h)
    has_anti = body.anti_scratch
    ok = stage == 'done'
    diag = resp.get('diag', '')
    if ok:
        ctx.count('compiled')
        if has_anti and nalloc:
            problems.append(('anti-scratch-ignored', 'script contains a scratch-forbidding instruction and still got %d scratch registers' % nalloc, []))
        # static necessary condition: more simultaneously live locals than registers that can possibly be free
        for ty, idx in (((INT, 0), (FLOAT, 1)) if not any(p[0] == 'alloc-mentioned' for p in problems) else ()):
            avail = pool_sizes[idx] - len([r for r in body.mentioned if r in pool_sizes[2 + idx]])
            if body.max_live_locals[ty] > avail:
                problems.append(('too-few-registers-accepted', '%d %s locals are live at once but only %d registers can be free' % (body.max_live_locals[ty], ty, avail), []))
    else:
        if not core.has_error_diag(diag):
            problems.append(('refused-without-diagnostic', 'lowering failed without an error diagnostic', []))
        if 'script too complex' in diag: ctx.count('expected_refusals_observed'); ctx.count('refused_too_complex')
        elif 'scratch registers are disabled' in diag: ctx.count('expected_refusals_observed'); ctx.count('refused_anti_scratch')
        else: ctx.seen('other_refusals', core.norm_msg(core.headline(diag)))
    for tag, desc, regs in problems:
        if tag == 'alloc-mentioned':
            ctxs = set()
            for r in regs: ctxs |= set(body.mention_ctx.get(r, ['?']))
            sig = 'scratch-clash:alloc-mentioned:mentioned-in:' + '+'.join(sorted(ctxs))
        else:
            sig = 'scratch-clash:' + tag
        ctx.violation(sig, desc, {'req': req, 'lang': langtag, 'mentioned': sorted(body.mentioned), 'events': evs[:60], 'diag': diag[:1500]})
    if nalloc or not ok:
        ctx.fp(tuple(body.shape), langtag, cfg.tag() if cfg else '')
    ctx.sample({'lang': langtag, 'body': body.text[:500], 'events': evs[:12], 'compiled': ok}, cap=2)

# parameter registers of old-ECL subs (game facts; written down independently of truth's tables):
# EoSD passes one int in I0 and one float in F0; PCB..StB have four int + four float parameter registers
ECL_PARAM_REGS = {'th06': ([-10001], [-10005]), 'th07': (list(range(10029, 10033)), list(range(10033, 10037))), 'th08': (list(range(10053, 10057)), list(range(10057, 10061))),
                  'th09': (list(range(10053, 10057)), list(range(10057, 10061))), 'th095': (list(range(10036, 10040)), list(range(10040, 10044)))}

def ecl_file_case(ctx, r):
    """Whole old-ECL files through the real `truecl compile`: several subs with parameters that call each other, bodies that need
    scratch registers, and the call-stack instruction that forbids scratch registers *in the whole file* in any one of the subs
    (before or after the subs that need scratch).  Invariants over the allocator events of every sub: no allocated register is one of
    the sub's parameter registers or mentioned in that sub; if the forbidding instruction is anywhere in the file and any sub needs a
    scratch register, the compile must fail with a diagnostic."""
    from .. import realenv
    game = r.pick(sorted(ECL_PARAM_REGS))
    gi, gf = realenv.ECL_GP[game]
    pi, pf = ECL_PARAM_REGS[game]
    nsubs = r.randint(2, 4)
    anti_sub = r.randrange(nsubs) if r.chance(0.4) else None
    subs, need_scratch_any, mentioned = [], False, []
    for k in range(nsubs):
        ni = r.randint(0, len(pi)); nf = r.randint(0, len(pf))
        params = [('int', 'a%d' % j) for j in range(ni)] + [('float', 'x%d' % j) for j in range(nf)]
        r.shuffle(params)
        subs.append({'name': 'sub%d' % k, 'params': params})
    text = ''
    for k, sb in enumerate(subs):
        L = []
        ints = ['$REG[%d]' % g for g in r.sample(gi, 2)] + [n for t, n in sb['params'] if t == 'int']
        flts = ['%%REG[%d]' % g for g in r.sample(gf, 2)] + [n for t, n in sb['params'] if t == 'float']
        ment = set()
        needs = False
        for _ in range(r.randint(1, 4)):
            kind = r.pick(['simple', 'pressure-int', 'pressure-float', 'local', 'call'])
            if kind == 'simple': L.append('%s = %s + %d;' % (ints[0], r.pick(ints), r.randint(1, 9)))
            elif kind == 'pressure-int': L.append('%s = (%s * 2) + (%s * 3) + (%s * 5);' % (ints[0], r.pick(ints), r.pick(ints), r.pick(ints))); needs = True
            elif kind == 'pressure-float': L.append('%s = (%s * 2.0) + (%s * 3.0);' % (flts[0], r.pick(flts), r.pick(flts))); needs = True
            elif kind == 'local': L.append('int loc%d = %s + 1;\n%s = loc%d * 2;' % (len(L), r.pick(ints), ints[0], len(L))); needs = True
            else:
                callee = r.pick(subs)
                args = []
                for t, _n in callee['params']:
                    if game == 'th06': args.append(str(r.randint(0, 9)) if t == 'int' else '%d.5' % r.randint(0, 9))      # EoSD takes two immediates
                    else: args.append(r.pick(ints + ['7']) if t == 'int' else r.pick(flts + ['1.5']))
                L.append('%s(%s);' % (callee['name'], ', '.join(args)))
        if anti_sub == k: L.insert(r.randint(0, len(L)), 'ins_%d(true);' % realenv.ECL_ANTI[game])
        need_scratch_any |= needs
        body = '\n'.join(L)
        from ..lowering import REG_RE
        mentioned.append({int(m) for m in REG_RE.findall(body)})
        text += 'void %s(%s) {\n%s\n}\n' % (sb['name'], ', '.join('%s %s' % p for p in sb['params']), body)
    text += 'script timeline0 {}\n'
    src = ctx.write('c05.ecl', text); out = os.path.join(ctx.dir, 'c05.bin')
    if os.path.exists(out): os.unlink(out)
    c = ctx.cli({'tool': 'ecl', 'cmd': 'compile', 'game': game, 'in': src, 'out': out, 'want_reg_events': True})
    ctx.evaluations += 1
    replay = {'text': text, 'game': game, 'anti_scratch_in_sub': anti_sub}
    if 'panic' in c or 'abort' in c: ctx.inconcl('compile crash (C04)'); return
    ok = c.get('ok')
    evs = c.get('reg_events') or []
    nalloc = sum(1 for e in evs if e['ev'] == 'alloc')
    if anti_sub is not None and ok and nalloc:
        ctx.violation('scratch-clash:anti-scratch-ignored:file-global', 'sub%d contains ins_%d (no scratch registers in this file), yet the file compiled and %d registers were allocated' % (anti_sub, realenv.ECL_ANTI[game], nalloc), replay); return
    if not ok:
        if not core.has_error_diag(c.get('diag', '')): ctx.violation('scratch-clash:refusal-without-diagnostic', c.get('diag', '')[:200], replay)
        elif anti_sub is not None and need_scratch_any: ctx.count('file_global_anti_scratch_refused')
        else: ctx.count('ecl_files_rejected'); ctx.seen('ecl_file_reject_reasons', core.norm_msg(core.headline(c.get('diag', '')))[:70])
        return
    # per sub: the k-th pool event belongs to the k-th sub
    k = -1
    for e in evs:
        if e['ev'] == 'pool': k += 1; continue
        if e['ev'] != 'alloc' or not (0 <= k < nsubs): continue
        reg = e['reg']
        ni = sum(1 for t, _ in subs[k]['params'] if t == 'int'); nf = sum(1 for t, _ in subs[k]['params'] if t == 'float')
        if reg in pi[:ni] + pf[:nf]:
            ctx.violation('scratch-clash:alloc-param', 'sub%d: allocated register %d, which holds one of its parameters' % (k, reg), replay); return
        if reg in mentioned[k]:
            ctx.violation('scratch-clash:alloc-mentioned:ecl-file', 'sub%d: allocated register %d, which its source mentions' % (k, reg), replay); return
        if reg not in gi + gf:
            ctx.violation('scratch-clash:alloc-not-general', 'sub%d: allocated %d which is not general-purpose' % (k, reg), replay); return
    ctx.count('ecl_files_compiled'); ctx.count('ecl_file_allocs', nalloc)
    if nalloc: ctx.fp('eclfile', game, text)

def run_shard(ctx):
    from .. import realenv
    n = SIZES[ctx.tier] // ctx.nshards + 1
    r = ctx.rng
    for i in range(n):
        which = r.wpick([('tl', 5), ('anm', 2.5), ('ecl', 2.5), ('ecl-file', 1.2)])
        if which == 'ecl-file': ecl_file_case(ctx, r); continue
        directed = r.chance(0.25)
        if which == 'tl':
            cfg = TL.Config(r, pools='any')
            feats = LW.feats_for(cfg, r)
            env = LW.tl_env(cfg, feats, r)
            anti = r.chance(0.12)
            body = None
            if directed:
                # one register mentioned exactly once, in a chosen syntactic context, under register pressure
                nm = (lambda x: TL.NAMES[x]) if cfg.aliases else (lambda x: 'REG[%d]' % x)
                si, sf = cfg.scratch()
                body = LW.gen_single_mention(r, si, sf, TL.EXTRA_INT[1:] + TL.EXTRA_INT[:1], TL.EXTRA_FLOAT, nm)
                if body is not None: ctx.count('directed_single_mention'); ctx.seen('directed_contexts', body.shape[1])
            if body is None:
                body = gen_body(r, env, sentinel='ins_101();' + ('\nins_%d(%s);' % (TL.ANTI_SCRATCH, r.pick(['', '', '@blob=""'])) if anti else ''),
                                max_depth=r.pick([1, 2, 3]), max_stmts=r.pick([3, 6, 10]), expr_depth=r.pick([1, 2, 3, 4]))
                body.anti_scratch = anti
            LW.reconcile_mentions(ctx, body)
            req, resp = LW.run_case(ctx, cfg, body, 1, presimplify=r.chance(0.5), difficulties=(0,))
            si, sf = cfg.scratch()
            judge(ctx, cfg, body, req, resp, 'TL', pool_sizes=(len(si), len(sf), set(si), set(sf)))
        else:
            le = realenv.pick_lang(r, which)
            feats = realenv.feats_for(le, r)
            env = realenv.make_env(le, feats, r)
            anti = le.anti_scratch is not None and r.chance(0.12)
            body = None
            if directed:
                gi, gf = list(le.gp_int), list(le.gp_float)
                r.shuffle(gi); r.shuffle(gf)
                ctxs = [c for c in LW.MENTION_CONTEXTS if le.has_diff or 'diffswitch' not in c]
                if 'casts' not in feats: ctxs = [c for c in ctxs if c != 'cast']
                body = LW.gen_single_mention(r, gi[2:], gf[2:], gi[:2], gf[:2], lambda x: 'REG[%d]' % x, call_int='ins_2001', call_float='ins_2002',
                                             has_cast='casts' in feats, ctxs=ctxs, sentinel=le.sentinel)
                if body is not None: ctx.count('directed_single_mention'); ctx.seen('directed_contexts', body.shape[1])
            if body is None:
                body = gen_body(r, env, sentinel=le.sentinel + ('\nins_%d(%s);' % (le.anti_scratch, r.pick(['', '', '@blob=""'])) if anti else ''),
                                max_depth=r.pick([1, 2, 3]), max_stmts=r.pick([3, 6, 10]), expr_depth=r.pick([1, 2, 3]))
                body.anti_scratch = anti
            LW.reconcile_mentions(ctx, body, {})
            req = {'op': 'vm_lower', 'lang': le.lang, 'mapfile': le.mapfile, 'body': body.text, 'states': [], 'difficulties': [0],
                   'check_regs': [], 'presimplify': True}
            resp = ctx.call(req)
            gi, gf = le.gp_int, le.gp_float
            judge(ctx, None, body, req, resp, le.tag, general_use=set(gi) | set(gf), pool_sizes=(len(gi), len(gf), set(gi), set(gf)))

def replay(path):
    rec = json.load(open(path))
    w = core.Worker('dev'); resp = w.call(rec['req']); w.close()
    print(json.dumps({k: resp.get(k) for k in ('stage', 'diag', 'reg_events', 'new_text')}, indent=1)[:5000])
    class B: pass
    b = B(); b.mentioned = set(rec['mentioned'])
    problems, _, _h = LW.check_reg_events(None, b, resp, general_use=set(sum([e.get('general_use', []) for e in resp.get('reg_events', []) if e['ev'] == 'pool'], [])))
    if problems: print('VIOLATION property=C05 replay=%s' % path); return 1
    return 0
