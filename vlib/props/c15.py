"""C15 - text in string arguments and metadata survives compile and decompile unchanged."""
import json, os
from .. import core, sig as SIG, argcodec as AC, formats, layout as L

META = {
    'level': 'exploration',
    'rule': 'strings over the unambiguous Shift-JIS repertoire (ASCII, half/full-width kana, kanji incl. characters whose trail byte is 0x5C / 0x7C / 0x40, characters whose encoded bytes equal the '
            'running mask byte) of lengths 0..300 around every block/buffer boundary, sequences of furigana lines; used as instruction arguments under every string encoding (block-padded, fixed buffer '
            '+/- nulless, length-prefixed, masked, furibug) via user signatures and via the built-in MSG signatures of TH06-TH18, and as STD names, ANM paths and mission lines; '
            'oracle: decompiled literal == source string, or the compile fails with an error when the string is unencodable / does not fit. distinct = hash(string, encoding); non-trivial = string has >= 2 characters',
    'assumptions': ['"unambiguous Shift-JIS" = characters on which python\'s shift_jis and cp932 codecs agree and round-trip (backslash and tilde included: WHATWG Shift_JIS, which truth uses, maps 0x5C/0x7E to them both ways)'],
    'floors': {'strings_survived': 300, 'rejected_as_expected': 20, 'encodings': 8, 'msg_builtin_games': 6, 'metadata_strings': 40},
}
# characters that the JIS X 0208 tables (python's shift_jis) map but the WHATWG Shift_JIS encoder (encoding_rs, i.e. truth) does not:
# they are unencodable for truth, which has to reject them - not replace them by their full-width look-alikes
JIS_ONLY = set('\u301c\u2016\u2014\u00a2\u00a3\u00ac')
SIZES = {'quick': 3600, 'thorough': 40000}
REP = None

def rep():
    global REP
    if REP is None:
        chars = AC.unambiguous_repertoire()
        REP = {'all': chars,
               'ascii': [c for c in chars if ord(c) < 0x7f],
               'kana': [c for c in chars if 0xff61 <= ord(c) < 0xffa0 or 0x3041 <= ord(c) < 0x30f7],
               'kanji': [c for c in chars if ord(c) >= 0x4e00],
               'trail5c': [c for c, e in chars.items() if len(e) == 2 and e[1] == 0x5c],
               'trail7c': [c for c, e in chars.items() if len(e) == 2 and e[1] == 0x7c],
               'trail40': [c for c, e in chars.items() if len(e) == 2 and e[1] in (0x40, 0x22, 0x80)]}
    return REP

def gen_string(r, maxchars=60, mask=None):
    R = rep()
    k = r.wpick([('ascii', 3), ('kana', 2), ('kanji', 2), ('mixed', 3), ('trail', 2), ('mask', 1.5 if mask else 0), ('long', 1)])
    n = r.wpick([(r.randint(0, 6), 3), (r.randint(0, maxchars), 3), (r.pick([3, 4, 5, 7, 8, 9, 15, 16, 17, 31, 32, 33, 63, 64, 65, 127, 128]), 2)])
    if k == 'long': n = r.randint(100, 300)
    n = min(n, 300)
    if k == 'ascii': s = ''.join(r.pick(R['ascii']) for _ in range(n))
    elif k == 'kana': s = ''.join(r.pick(R['kana']) for _ in range(n))
    elif k == 'kanji': s = ''.join(r.pick(R['kanji']) for _ in range(n))
    elif k == 'trail': s = ''.join(r.pick(R['trail5c'] + R['trail7c'] + R['trail40'] + R['ascii'][:5]) for _ in range(n))
    elif k == 'mask':
        ms = SIG.mask_stream(*mask)
        s = ''
        for _ in range(n):
            b = next(ms)
            s += chr(b) if 0x20 <= b < 0x7f and chr(b) in R['all'] else r.pick(R['ascii'])
    else: s = ''.join(r.pick(r.pick([R['ascii'], R['kana'], R['kanji'], R['trail5c']])) for _ in range(n))
    if n and r.chance(0.12):
        # path-like text: backslashes (the escape character of the source syntax) without any other character that needs escaping
        i = r.randrange(len(s)); s = s[:i] + r.pick(['\\', '\\\\', 'data\\eff01.anm', '\\n', 'a\\"', '~']) + s[i + 1:]
    if s[:1] == '|' and r.chance(0.7): s = 'x' + s[1:]
    return s

ENCODINGS = [('z(bs=1)', {}), ('z(bs=4)', {}), ('z(bs=16)', {}), ('m(bs=4;mask=0x77,0,0)', {}), ('m(bs=4;mask=0x77,7,16)', {}), ('m(bs=8;mask=0xaa,3,1)', {}),
             ('z(len=16)', {}), ('z(len=48)', {}), ('z(len=32;nulless)', {}), ('m(len=32;mask=0x77,7,16)', {}), ('p(bs=4)', {}), ('p(bs=1)', {}),
             ('z(len=8;nulless)', {}), ('m(len=8;nulless;mask=0x77,0,0)', {}), ('m(len=16;nulless;mask=0x77,7,16)', {}), ('m(len=8;mask=0x55,1,0)', {}),
             ('Sz(bs=4)', {'pre': [('i', 7)]}), ('fSm(bs=4;mask=0x77,7,16)', {'pre': [('f', 0x3f800000), ('i', -1)]}), ('z(len=16)S', {'post': [('i', 3)]}), ('p(bs=4)f', {'post': [('f', 0x40000000)]})]

def capacity(p, blob_limit=None):
    """max encoded bytes the model expects to fit (None = unbounded)."""
    if 'len' in p.attrs: return p.attrs['len'] - (0 if 'nulless' in p.attrs else 1)
    return None

def user_sig_case(ctx, r):
    sigtext, extra = r.pick(ENCODINGS)
    params = SIG.parse_sig(sigtext)
    sp = next(p for p in params if p.is_string)
    m = sp.attrs.get('mask'); m = [m, 0, 0] if isinstance(m, int) else m
    s = gen_string(r, mask=m)
    cap = capacity(sp)
    if cap is not None and r.chance(0.4):
        # exact fit and its neighbours: the text fills the buffer completely / by one byte less / one byte too many
        target = max(0, cap + r.pick([-1, 0, 0, 0, 1]))
        R = rep(); s = ''
        while len(s.encode('shift_jis')) < target:
            room = target - len(s.encode('shift_jis'))
            s += r.pick(R['kana'] + R['kanji']) if room >= 2 and r.chance(0.4) else r.pick(R['ascii'])
        ctx.count('exact_fit_strings')
    if r.chance(0.08): s += r.pick(['é', '€', '한', '😀', '\u301c', '\u2016', '\u2014', '\u00a2', '\u00a3', '\u00ac', '\u23c4'])     # not encodable in (WHATWG) Shift-JIS; the JIS-table look-alikes of ～ ∥ ― ￠ ￡ ￢ included
    args = list(extra.get('pre', [])) + [('s', s)] + list(extra.get('post', []))
    obs = AC.roundtrip_call(ctx, 'anm', 'th12', 900, sigtext, args)
    judge_string(ctx, obs, s, sp, 'anm-user:' + sigtext, idx=len(extra.get('pre', [])), header_limit=0xffff - 8)

def judge_string(ctx, obs, s, sp, enc_tag, idx=0, header_limit=None, nth=0, size_verdict=None):
    ctx.evaluations += 1
    c = obs['compile']
    replay = {'text': obs['text'], 'sig': obs.get('sig'), 'string': s, 'encoding': enc_tag}
    if 'panic' in c or 'abort' in c:
        p = c.get('panic') or {}
        ctx.violation('string:%s:panic:%s' % (enc_tag.split(':')[0], core.panic_sig(p) if p else c.get('abort')), (p.get('msg') or str(c.get('abort')))[:200], replay); return
    try:
        enc = s.encode('shift_jis'); encodable = s.encode('cp932') == enc and not (set(s) & JIS_ONLY)
    except UnicodeEncodeError:
        enc, encodable = None, False
    cap = capacity(sp) if sp is not None else None
    too_long = encodable and cap is not None and len(enc) > cap
    if header_limit is not None and encodable and len(enc) + 8 > header_limit: too_long = True
    if size_verdict == 'too-long' and encodable: too_long = True
    if size_verdict == 'unjudged' and not c.get('ok') and core.has_error_diag(c.get('diag', '')) and 'too large' in c.get('diag', ''):
        ctx.count('size_unjudged_furigana_carry_over'); return
    if not c.get('ok'):
        if not core.has_error_diag(c.get('diag', '')):
            ctx.violation('string:%s:fails-without-diagnostic' % enc_tag.split(':')[0], c.get('diag', '')[:200], replay); return
        if not encodable or too_long:
            ctx.count('rejected_as_expected'); ctx.seen('rejection_kinds', core.norm_msg(core.headline(c['diag']))[:60]); return
        ctx.violation('string:%s:rejects-valid:%s' % (enc_tag.split(':')[0], core.norm_msg(core.headline(c['diag']))[:50]), 'string %r (%d bytes) under %s: %s' % (s[:60], len(enc), enc_tag, c['diag'][:200]), replay); return
    if not encodable:
        ctx.violation('string:%s:unencodable-accepted' % enc_tag.split(':')[0], 'string %r is not Shift-JIS encodable but compiled' % s[:60], replay); return
    if too_long:
        ctx.violation('string:%s:oversize-accepted' % enc_tag.split(':')[0], 'string of %d bytes under %s compiled without a diagnostic' % (len(enc), enc_tag), replay); return
    d = obs.get('decompile') or {}
    if 'panic' in d or not d.get('ok'):
        ctx.violation('string:%s:decompile-fails:%s' % (enc_tag.split(':')[0], core.norm_msg(core.headline(d.get('diag', '') or str(d.get('panic'))))[:50]), str(d.get('diag') or d.get('panic'))[:300], replay); return
    calls = AC.parse_all_calls(obs.get('dec_text') or '', obs.get('opcode', 900))
    got = None
    if len(calls) > nth and calls[nth] is not None and len(calls[nth]) > idx: got = calls[nth][idx]
    if got is None or got[0] != 's' or got[1] != s:
        loss = core.warnings_of(d.get('diag', ''))
        cause = classify(s, got[1] if got and got[0] == 's' else None, enc)
        ctx.violation('string:%s:%s' % (enc_tag.split(':')[0], cause), 'wrote %r, decompiled %r under %s%s' % (s[:80], (got[1][:80] if got and got[0] == 's' else got), enc_tag, ' (decompile warned: %s)' % loss[0][:80] if loss else ''), replay); return
    ctx.count('strings_survived'); ctx.seen('encodings', enc_tag)
    if len(s) >= 2: ctx.fp(s, enc_tag)
    ctx.sample({'string': s[:60], 'encoding': enc_tag, 'bytes': len(enc)}, cap=3)

def classify(s, got, enc):
    if got is None: return 'argument-missing'
    if s.startswith(got): return 'truncated' + ('-at-masked-nul' if len(got) < len(s) else '')
    if got.startswith(s): return 'trailing-garbage'
    if len(got) == len(s): return 'characters-changed'
    return 'differs'

def msg_builtin_case(ctx, r, tables):
    ending = r.chance(0.2)
    game = r.pick(formats.END_GAMES if ending else formats.MSG_GAMES)
    t = tables.get(game, 'end' if ending else 'msg')
    cands = [(op, ps) for op, ps in t['sigs'].items() if sum(1 for p in ps if p.is_string) == 1 and not any(p.is_jump for p in ps)]
    if not cands: return
    op, params = r.pick(cands)
    sp = next(p for p in params if p.is_string)
    m = sp.attrs.get('mask'); m = [m, 0, 0] if isinstance(m, int) else m
    furi = 'furibug' in sp.attrs
    seq = []
    for _ in range(r.wpick([(1, 3), (2, 2), (4, 1)]) if furi else 1):
        s = gen_string(r, maxchars=40, mask=m)
        if furi and r.chance(0.5): s = '|' + s
        seq.append(s)
    # only the judged (last) string may be oversize
    seq = [x if len(x.encode('shift_jis', 'replace')) <= 120 else x[:30] for x in seq[:-1]] + seq[-1:]
    def argsfor(s):
        a = []
        for p in params:
            if p.is_padding: continue
            a.append(('s', s) if p.is_string else (('f', 0x3f800000) if p.is_float else ('i', 1)))
        return a
    idx = [i for i, p in enumerate(q for q in params if not q.is_padding) if p.is_string][0]
    pre = ['ins_%d(%s);' % (op, ', '.join(AC.render_arg(a) for a in argsfor(s))) for s in seq[:-1]]
    obs = AC.roundtrip_call(ctx, 'msg', game, op, '', argsfor(seq[-1]), pre_calls=pre, msg_mode='ending' if ending else None, user_map=False)
    obs['opcode'] = op
    # MSG instruction headers hold the argument size in one byte
    # MSG instruction headers hold the argument size in one byte: compute the blob size from the signature
    try:
        fixed = sum(p.size for p in params if not p.is_string)
        raw = len(seq[-1].encode('shift_jis')) + 1
        bs = sp.attrs.get('bs', 1)
        blob_size = fixed + (raw + (-raw % bs) if 'len' not in sp.attrs else sp.attrs['len'])
    except UnicodeEncodeError:
        blob_size = 0
    pending_furigana = furi and any(x.startswith('|') for x in seq[:-1])
    size_verdict = 'unjudged' if pending_furigana else ('too-long' if blob_size > 255 else 'fits')
    judge_string(ctx, obs, seq[-1], sp, 'msg-builtin:%s:%s' % (game, SIG.sig_text(params)), idx=idx, size_verdict=size_verdict, nth=len(seq) - 1)
    ctx.seen('msg_builtin_games', game)
    if furi: ctx.count('furigana_sequences')

def metadata_case(ctx, r):
    k = r.pick(['std-old', 'std-new', 'anm-path', 'mission'])
    if k == 'mission': s = gen_string(r, maxchars=30)
    else: s = gen_string(r, maxchars=70)
    capk = {'std-old': 127, 'std-new': 127, 'mission': 63}.get(k)
    if capk is not None and r.chance(0.4):
        # around the field size, in bytes - with multi-byte characters the character count is much smaller than the byte count
        target = capk + r.pick([-2, -1, 0, 0, 1, 2, 13])
        R = rep(); s = ''
        multi = r.chance(0.7)
        while len(s.encode('shift_jis')) < target:
            room = target - len(s.encode('shift_jis'))
            s += r.pick(R['kana'] + R['kanji']) if room >= 2 and multi and r.chance(0.9) else r.pick(R['ascii'])
        if s[:1] in '|@': s = 'x' + s[1:]
        ctx.count('exact_fit_metadata')
    if r.chance(0.05): s += 'é'
    q = AC.quote(s)
    if k == 'std-old':
        game = r.pick(['th06', 'th07', 'th08', 'th09']); tool, mm = 'std', None
        field = r.pick(['stage', 'bgmname', 'bgmpath'])
        text = 'meta { unknown: 0, stage_name: %s, bgm: [{path: %s, name: %s},{path:"a",name:"b"},{path:"a",name:"b"},{path:"a",name:"b"}], objects: {}, instances: [] }\nscript main { }\n' % (
            q if field == 'stage' else '"st"', q if field == 'bgmpath' else '"p"', q if field == 'bgmname' else '"n"')
        cap = 127; key = {'stage': 'stage_name: ', 'bgmname': 'name: ', 'bgmpath': 'path: '}[field]
    elif k == 'std-new':
        game = r.pick(['th095', 'th10', 'th12', 'th17']); tool, mm = 'std', None
        text = 'meta { unknown: 0, anm_path: %s, objects: {}, instances: [] }\nscript main { }\n' % q
        cap = 127; key = 'anm_path: '
    elif k == 'anm-path':
        game = r.pick(['th06', 'th08', 'th12', 'th17']); tool, mm = 'anm', None
        text = 'entry { path: %s, has_data: false, img_width: 64, img_height: 64, img_format: 3, sprites: {} }\n' % q
        cap = None; key = 'path: '
    else:
        game = r.pick(['th095', 'th125']); tool, mm = 'msg', 'mission'
        line = r.randint(0, 2 if game == 'th095' else 5)
        lines = ['"l%d"' % i for i in range(3 if game == 'th095' else 6)]; lines[line] = q
        if game == 'th095': text = 'entry { stage: %d, scene: %d, face: 1, point: 2, text: [%s] }\n' % (r.randint(0, 12), r.randint(0, 9), ', '.join(lines))
        else: text = 'entry { stage: %d, scene: %d, player: %d, unknown_1: 0, unknown_2: 0, point_1: 1, point_2: 2, furigana: [[0,0],[0,0],[0,0]], text: [%s] }\n' % (r.randint(0, 14), r.randint(0, 9), r.randint(0, 1), ', '.join(lines))
        cap = 63; key = None
    src = ctx.write('md.txt', text); out = os.path.join(ctx.dir, 'md.bin'); dec = os.path.join(ctx.dir, 'md.dec')
    for p in (out, dec):
        if os.path.exists(p): os.unlink(p)
    cj = {'tool': tool, 'cmd': 'compile', 'game': game, 'in': src, 'out': out}
    if mm: cj['msg_mode'] = mm
    c = ctx.cli(cj)
    ctx.evaluations += 1
    replay = {'text': text, 'string': s, 'kind': k, 'game': game}
    if 'panic' in c or 'abort' in c:
        p = c.get('panic') or {}
        ctx.violation('string:%s:panic:%s' % (k, core.panic_sig(p) if p else c.get('abort')), (p.get('msg') or '')[:200], replay); return
    try:
        enc = s.encode('shift_jis'); encodable = s.encode('cp932') == enc and not (set(s) & JIS_ONLY)
    except UnicodeEncodeError: enc, encodable = None, False
    too_long = encodable and cap is not None and len(enc) > cap
    # (an ANM path that starts with '@' has a special meaning; not generated)
    if not c.get('ok'):
        if core.has_error_diag(c.get('diag', '')) and (not encodable or too_long): ctx.count('rejected_as_expected'); return
        ctx.violation('string:%s:rejects-valid:%s' % (k, core.norm_msg(core.headline(c.get('diag', '')))[:50]), 'string %r: %s' % (s[:60], c.get('diag', '')[:200]), replay); return
    if not encodable: ctx.violation('string:%s:unencodable-accepted' % k, repr(s[:60]), replay); return
    if too_long: ctx.violation('string:%s:oversize-accepted' % k, '%d bytes in a %d byte field' % (len(enc), cap + 1), replay); return
    dj = {'tool': tool, 'cmd': 'decompile', 'game': game, 'in': out, 'out': dec, 'width': 100000}
    if mm: dj['msg_mode'] = mm
    d = ctx.cli(dj)
    if not d.get('ok'):
        ctx.violation('string:%s:decompile-fails' % k, str(d.get('diag') or d.get('panic'))[:300], replay); return
    dt = (ctx.read(dec) or b'').decode('utf-8', 'replace')
    if q not in dt:
        ctx.violation('string:%s:%s' % (k, 'lost-or-changed'), 'wrote %s; decompiled text: %s' % (q[:80], dt[:300]), replay); return
    ctx.count('strings_survived'); ctx.count('metadata_strings'); ctx.seen('encodings', 'meta:' + k)
    if len(s) >= 2: ctx.fp(s, k)

def run_shard(ctx):
    r = ctx.rng
    tables = formats.SigTables(ctx)
    n = SIZES[ctx.tier] // ctx.nshards + 1
    for i in range(n):
        k = r.wpick([('user', 5), ('msg', 3), ('meta', 2)])
        if k == 'user': user_sig_case(ctx, r)
        elif k == 'msg': msg_builtin_case(ctx, r, tables)
        else: metadata_case(ctx, r)

def replay(path):
    rec = json.load(open(path)); print(json.dumps(rec, indent=1, ensure_ascii=False)[:3000]); return 0
