"""C03 - a successful compile never writes a file that differs from what was asked."""
import json, os, struct
from .. import core, layout as L

META = {
    'level': 'exploration',
    'rule': 'every numeric field of every container/instruction header that a source file can set (time labels, opcodes, @mask/@arg0 pseudo-arguments, narrow integer arguments, meta fields of ANM entries/THTX, STD '
            'objects/quads/instances, MSG tables, mission entries), swept over the boundary values of the field that stores it (0, 2^(n-1)-1, 2^(n-1), 2^n-1, 2^n, 2^n+1, 2^31-1, -1, -2^(n-1), -2^(n-1)-1, -2^31, '
            'random in/out of range); string and argument-blob lengths around the limits of size fields and fixed buffers; sprite/script/object/quad/instance/sub counts at and beyond 65535. Oracle: if the compile '
            'succeeds, the field read from the written file by the independent layout parser holds exactly the requested value (two\'s complement allowed: v in [-2^(n-1), 2^n-1] and bits == v mod 2^n), the rest of '
            'the instruction/table is intact, and truth itself can read the file back for the same game; otherwise there must be an error diagnostic. distinct = (field, game, value class); non-trivial = value '
            'at or beyond a field boundary',
    'assumptions': ['field widths as in DESIGN.md B.1 (independent layout parser)'],
    'floors': {'string_tables': 30, 'fields': 40, 'accepted_and_verified': 500, 'rejected_with_diagnostic': 150, 'beyond_boundary_values': 300, 'count_cases': 2, 'readback_ok': 400},
}
SIZES = {'quick': 5000, 'thorough': 60000}
ANM_GAMES = ['th06', 'th07', 'th08', 'th095', 'th10', 'th11', 'th12', 'th13', 'th14', 'th17', 'th18']
STD_GAMES = ['th06', 'th07', 'th08', 'th09', 'th095', 'th10', 'th12', 'th17']
MSG_GAMES = ['th06', 'th07', 'th08', 'th09', 'th10', 'th11', 'th12', 'th14', 'th17']
ECL06_GAMES = ['th06', 'th07', 'th08', 'th09', 'th095']
ECL10_GAMES = ['th10', 'th12', 'th14', 'th17']

def boundary_values(r, bits):
    n = bits
    vs = [0, 1, (1 << (n - 1)) - 1, (1 << (n - 1)), (1 << (n - 1)) + 1, (1 << n) - 2, (1 << n) - 1, (1 << n), (1 << n) + 1, (1 << n) + (1 << (n - 1)),
          (1 << n) * 2, (1 << n) * 3 + 5, 2 ** 31 - 1, -1, -2, -(1 << (n - 1)), -(1 << (n - 1)) - 1, -(1 << n), -(1 << n) + 1, -2 ** 31, 2 ** 24 + 3, 65536 * 7 + 1]
    vs += [r.randrange(1 << n), r.randrange(1 << n) - (1 << (n - 1)), r.randrange(-2 ** 31, 2 ** 31), r.randrange(1 << n, 1 << (n + 4))]
    return [v for v in vs if -2 ** 31 <= v <= 2 ** 31 - 1]

def vclass(v, bits):
    n = bits
    if 0 <= v < (1 << (n - 1)): return 'small'
    if (1 << (n - 1)) <= v < (1 << n): return 'upper-half'
    if -(1 << (n - 1)) <= v < 0: return 'negative-in-range'
    return 'above-2^n' if v > 0 else 'below-min'

# ------------------------------------------------------------------------------------------ templates
def std_meta(game, obj_extra='', layer='1', quad='rect {anm_script: 2, pos: [0.0,0.0,0.0], size: [1.0,1.0]}', inst='obja {pos: [0.0,0.0,0.0]}', unknown='0', strs=None):
    new = L.std_is_new(game)
    strs = strs or {}
    if new: extra = 'anm_path: "%s"' % strs.get('anm_path', 'a.anm')
    else: extra = 'stage_name: "%s", bgm: [%s]' % (strs.get('stage_name', 's'), ', '.join('{path: "%s", name: "%s"}' % (strs.get('bgm_path', 'p') if i == 1 else 'p', strs.get('bgm_name', 'n') if i == 2 else 'n') for i in range(4)))
    return 'meta { unknown: %s, %s, objects: {obja: {layer: %s, pos: [0.0,0.0,0.0], size: [1.0,1.0,1.0], quads: [%s]}}, instances: [%s] }\n' % (unknown, extra, layer, quad, inst)

def anm_entry(game, **kw):
    new = L.ANM_VERSION[game] >= 7
    f = {'path': '"a.png"', 'has_data': 'false', 'img_width': '16', 'img_height': '16', 'img_format': '1', 'rt_width': '16', 'rt_height': '16', 'rt_format': '1', 'memory_priority': '0'}
    if new: f.update({'offset_x': '0', 'offset_y': '0', 'low_res_scale': 'false'})
    else: f['colorkey'] = '0'
    sprites = kw.pop('sprites', 's0: {x: 0.0, y: 0.0, w: 1.0, h: 1.0}')
    f.update(kw)
    return 'entry { %s, sprites: {%s} }\n' % (', '.join('%s: %s' % kv for kv in f.items()), sprites)

INSTR_LANGS = []   # (key, tool, games, mapline, wrap(body), first(parsed), parse, widths{time,opcode,size_kind,mask})
def lang(key, tool, games, maphdr, wrap, parse, first, time_bits, op_bits, mask_bits=None, extra_bits=None, msg_mode=None):
    INSTR_LANGS.append(dict(key=key, tool=tool, games=games, maphdr=maphdr, wrap=wrap, parse=parse, first=first, time_bits=time_bits, op_bits=op_bits, mask_bits=mask_bits, extra_bits=extra_bits))

lang('anm-v0', 'anm', ['th06'], '!anmmap', lambda g, b: anm_entry(g) + 'script s0 {\n%s\n}\n' % b, L.parse_anm, lambda p: p[0]['scripts'][0]['instrs'], 16, 8)
lang('anm', 'anm', ['th07', 'th08', 'th10', 'th12', 'th14', 'th17'], '!anmmap', lambda g, b: anm_entry(g) + 'script s0 {\n%s\n}\n' % b, L.parse_anm, lambda p: p[0]['scripts'][0]['instrs'], 16, 16, mask_bits=16)
lang('std-06', 'std', ['th06', 'th07', 'th08', 'th09'], '!stdmap', lambda g, b: std_meta(g) + 'script main {\n%s\n}\n' % b, L.parse_std, lambda p: p['script'], 32, 16)
lang('std-10', 'std', ['th095', 'th10', 'th12', 'th17'], '!stdmap', lambda g, b: std_meta(g) + 'script main {\n%s\n}\n' % b, L.parse_std, lambda p: p['script'], 32, 16)
lang('msg', 'msg', MSG_GAMES, '!msgmap', lambda g, b: 'meta { table: {0: {script: "s0"}} }\nscript s0 {\n%s\n}\n' % b, L.parse_msg, lambda p: p['scripts'][min(p['scripts'])], 16, 8)
lang('ecl06-sub', 'ecl', ECL06_GAMES, '!eclmap', lambda g, b: 'void s0() {\n%s\n}\n' % b, L.parse_ecl06, lambda p: p['subs'][0]['instrs'], 32, 16, mask_bits=16)
lang('ecl10', 'ecl', ECL10_GAMES, '!eclmap', lambda g, b: 'void s0() {\n%s\n}\n' % b, L.parse_ecl10, lambda p: p['subs'][0]['instrs'], 32, 16, mask_bits=16)

def timeline_wrap(g, b): return 'void s0() {\n}\nscript timeline0 {\n%s\n}\n' % b
lang('timeline-06', 'ecl', ['th06', 'th07'], '!eclmap\n!timeline_ins_signatures', timeline_wrap, L.parse_ecl06, lambda p: p['timelines'][0]['instrs'], 16, 16, extra_bits=16)
lang('timeline-08', 'ecl', ['th08', 'th09', 'th095'], '!eclmap\n!timeline_ins_signatures', timeline_wrap, L.parse_ecl06, lambda p: p['timelines'][0]['instrs'], 32, 16)

ARG_TYPES = {'b': (8, 1), 'c': (8, 1), 's': (16, 2), 'u': (16, 2), 'S': (32, 4), 'U': (32, 4)}

# ------------------------------------------------------------------------------------------ running one case
def compile_and_parse(ctx, tool, game, text, mapfile, parse, replay, msg_mode=None):
    """-> ('ok', parsed) | ('rejected', diag) | None (already reported / not judged)"""
    src = ctx.write('c03.txt', text); out = os.path.join(ctx.dir, 'c03.bin')
    if os.path.exists(out): os.unlink(out)
    job = {'tool': tool, 'cmd': 'compile', 'game': game, 'in': src, 'out': out}
    if mapfile: job['maps'] = [ctx.write('c03.map', mapfile)]
    if msg_mode: job['msg_mode'] = msg_mode
    c = ctx.cli(job)
    ctx.evaluations += 1
    if 'panic' in c or 'abort' in c:
        ctx.inconcl('compile crash (C04)'); ctx.seen('crashes', '%s %s: %s' % (replay.get('field'), replay.get('value', replay.get('count', replay.get('strlen'))), core.panic_sig(c) if 'panic' in c else str(c.get('abort'))[:80])); return None
    if not c.get('ok'):
        if not core.has_error_diag(c.get('diag', '')):
            ctx.violation('narrowing:%s:fails-without-diagnostic' % tool, 'compile failed with no error diagnostic', replay); return None
        return ('rejected', c.get('diag', ''))
    data = ctx.read(out)
    if data is None:
        ctx.violation('narrowing:%s:no-output' % tool, 'compile succeeded but wrote nothing', replay); return None
    try: parsed = parse(data, game)
    except (L.LayoutError, struct.error, IndexError, ValueError) as e:
        return ('ok', None, data, 'layout parser: %s' % e)
    return ('ok', parsed, data, None)

def readback(ctx, tool, game, mapfile, sigkey, replay, msg_mode=None):
    out = os.path.join(ctx.dir, 'c03.bin')
    job = {'tool': tool, 'cmd': 'decompile', 'game': game, 'in': out, 'out': os.path.join(ctx.dir, 'c03.dec')}
    if mapfile: job['maps'] = [os.path.join(ctx.dir, 'c03.map')]
    if msg_mode: job['msg_mode'] = msg_mode
    c = ctx.cli(job)
    if 'panic' in c or 'abort' in c: ctx.inconcl('decompile crash (C04)'); return False
    if not c.get('ok'):
        ctx.violation('narrowing:%s:written-file-unreadable' % sigkey, 'truth cannot read back the file it wrote: %s' % core.norm_msg(core.headline(c.get('diag', '')))[:200], replay); return False
    ctx.count('readback_ok')
    # "what is read back equals what was requested": the text truth reads back from its own file must denote that same file
    # (unless decompile itself warned about a loss)
    if [w for w in core.warnings_of(c.get('diag', '')) if 'were decompiled to byte blobs' not in w]: ctx.count('readback_loss_warning'); return True
    out2 = os.path.join(ctx.dir, 'c03.re')
    if os.path.exists(out2): os.unlink(out2)
    job2 = {'tool': tool, 'cmd': 'compile', 'game': game, 'in': job['out'], 'out': out2}
    if mapfile: job2['maps'] = [os.path.join(ctx.dir, 'c03.map')]
    if msg_mode: job2['msg_mode'] = msg_mode
    if tool == 'anm': job2['images'] = [out]
    c2 = ctx.cli(job2)
    if 'panic' in c2 or 'abort' in c2: ctx.inconcl('recompile crash (C04)'); return False
    if not c2.get('ok'):
        ctx.violation('narrowing:%s:read-back-differs' % sigkey, 'the text truth reads back from the file it wrote is rejected: %s' % core.norm_msg(core.headline(c2.get('diag', '')))[:200],
                      dict(replay, read_back=(ctx.read(job['out']) or b'').decode('utf-8', 'replace')[-1500:])); return False
    if ctx.read(out2) != ctx.read(out):
        ctx.violation('narrowing:%s:read-back-differs' % sigkey, 'the text truth reads back from the file it wrote compiles to different bytes',
                      dict(replay, read_back=(ctx.read(job['out']) or b'').decode('utf-8', 'replace')[-1500:])); return False
    ctx.count('readback_recompiles_identically')
    return True

def judge_field(ctx, field, game, bits, v, stored, replay, signed_only=False, unsigned_only=False):
    """stored: unsigned field contents."""
    n = bits
    lo, hi = -(1 << (n - 1)), (1 << n) - 1
    ctx.seen('fields', field)
    if v < 0 or v >= (1 << (n - 1)): ctx.count('beyond_boundary_values')
    if not (lo <= v <= hi):
        ctx.violation('narrowing:%s:stored-different-value' % field, '%s = %d does not fit the %d-bit field, but compile succeeded and stored %d' % (field, v, n, stored), replay); return False
    if stored != v % (1 << n):
        ctx.violation('narrowing:%s:stored-wrong-value' % field, '%s = %d was stored as %d' % (field, v, stored), replay); return False
    ctx.count('accepted_and_verified')
    ctx.fp('field', '%s %s %s' % (field, game, vclass(v, bits)))
    ctx.sample({'field': field, 'game': game, 'requested': v, 'stored_bits': stored, 'class': vclass(v, bits)}, cap=3)
    return True

def u(x, bits): return x % (1 << bits)

# ------------------------------------------------------------------------------------------ instruction header fields
def first_instrs(lg, parsed):
    try: return lg['first'](parsed)
    except (IndexError, KeyError, ValueError, TypeError): return []

def instr_case(ctx, r):
    lg = r.pick(INSTR_LANGS)
    game = r.pick(lg['games'])
    what = r.wpick([('time', 3), ('opcode', 3), ('mask', 2 if lg['mask_bits'] else 0), ('arg0', 2 if lg['extra_bits'] else 0), ('arg', 3), ('strlen', 2), ('nargs', 2),
                    ('pop', 1 if lg['key'] == 'ecl10' else 0), ('argc', 1 if lg['key'] == 'ecl10' else 0)])
    op = 900 if lg['op_bits'] > 8 else 90
    sig = 'S'
    body_time = 5; val = 7
    pseudo = ''
    field = '%s.%s' % (lg['key'], what)
    if what == 'mask' and game == 'th06': field += ':th06'       # EoSD has no parameter mask; the field holds a constant
    if lg['key'] == 'std-06': sig = 'S__'
    if what == 'time':
        bits = lg['time_bits']; v = r.pick(boundary_values(r, bits)); body_time = v
        if bits == 32 and not (-2 ** 31 <= v < 2 ** 31): return
    elif what == 'opcode':
        bits = lg['op_bits']; v = r.pick([x for x in boundary_values(r, bits) if x >= 0]); op = v
    elif what == 'mask':
        bits = lg['mask_bits']; v = r.pick(boundary_values(r, bits)); pseudo = '@mask=%d, ' % v
    elif what == 'arg0':
        bits = lg['extra_bits']; v = r.pick(boundary_values(r, bits) + [4, 4, 3, 5]); pseudo = '@arg0=%d, ' % v
        if r.chance(0.3): body_time = r.pick([-1, -1, 0, -2])        # (time -1 with first argument 4 is how a TH06/07 timeline ends)
    elif what == 'pop':
        bits = 8; v = r.pick(boundary_values(r, bits)); pseudo = '@pop=%d, ' % v
    elif what == 'argc':
        bits = 8; v = r.pick(boundary_values(r, bits)); pseudo = '@nargs=%d, ' % v
    elif what == 'arg':
        ch = r.pick(sorted(ARG_TYPES)); bits = ARG_TYPES[ch][0]; v = r.pick(boundary_values(r, bits)); val = v
        sig = ch + {1: '---', 2: '--', 4: ''}[ARG_TYPES[ch][1]]
        if lg['key'] == 'std-06': sig += '__'
        field += ':' + ch
    elif what == 'strlen':
        if lg['key'] == 'std-06': return
        limit = r.pick([255, 65535]) if lg['key'] in ('anm-v0', 'msg', 'timeline-08') else 65535
        hdr = {'anm-v0': 0, 'msg': 0, 'anm': 8, 'std-10': 8, 'ecl06-sub': 12, 'ecl10': 16, 'timeline-06': 8, 'timeline-08': 8}[lg['key']]
        n = max(0, r.pick([limit - hdr - 9, limit - hdr - 5, limit - hdr - 4, limit - hdr - 1, limit - hdr, limit - hdr + 3, limit - hdr + 4, limit + 9, limit + 300]) + r.randint(-2, 2))
        sig = r.pick(['z(bs=4)', 'm(bs=4;mask=0x77,7,16)', 'z(bs=1)'])
        s = ''.join(r.pick('abcdefghij') for _ in range(n))
        text = lg['wrap'](game, '%d: ins_%d("%s");\nins_%d("tail");' % (body_time, op, s, op))
        mapfile = '%s\n%s\n%d %s\n' % (lg['maphdr'].split('\n')[0], lg['maphdr'].split('\n')[1] if '\n' in lg['maphdr'] else '!ins_signatures', op, sig)
        replay = {'field': field, 'game': game, 'strlen': n, 'text': text if n < 400 else text[:200] + '...', 'mapfile': mapfile}
        res = compile_and_parse(ctx, lg['tool'], game, text, mapfile, lg['parse'], replay)
        if res is None: return
        if res[0] == 'rejected': ctx.count('rejected_with_diagnostic'); ctx.seen('reject_reasons', field + ': ' + core.norm_msg(core.headline(res[1]))[:70]); return
        if res[1] is None:
            ctx.violation('narrowing:%s:file-corrupt' % field, 'string of %d bytes: compile succeeded but the file does not parse (%s)' % (n, res[3]), replay); return
        ins = first_instrs(lg, res[1])
        if len(ins) != 2 or ins[0].opcode != op or ins[1].opcode != op:
            ctx.violation('narrowing:%s:instructions-lost' % field, 'string of %d bytes: wrote %d instructions (opcodes %s), expected 2 of opcode %d' % (n, len(ins), [i.opcode for i in ins][:5], op), replay); return
        bs = 4 if 'bs=4' in sig else 1
        want_len = (n + 1 + bs - 1) // bs * bs
        if len(ins[0].blob) != want_len:
            ctx.violation('narrowing:%s:blob-length' % field, 'string of %d bytes: blob has %d bytes, expected %d' % (n, len(ins[0].blob), want_len), replay); return
        if 'mask' not in sig and ins[0].blob[:n] != s.encode():
            ctx.violation('narrowing:%s:blob-content' % field, 'string of %d bytes not stored intact' % n, replay); return
        ctx.seen('fields', field); ctx.count('accepted_and_verified')
        if n + hdr >= limit - 8: ctx.count('beyond_boundary_values')
        ctx.fp('field', '%s %s %d' % (field, game, (n + hdr) // 4 - limit // 4))
        readback(ctx, lg['tool'], game, mapfile, field, replay)
        return
    elif what == 'nargs':
        # many arguments: total instruction size around the limit of the size field
        if lg['key'] == 'std-06': return
        limit = 255 if lg['key'] in ('anm-v0', 'msg', 'timeline-08') else 65535
        hdr = {'anm-v0': 0, 'msg': 0, 'anm': 8, 'std-10': 8, 'ecl06-sub': 12, 'ecl10': 16, 'timeline-06': 8, 'timeline-08': 8}[lg['key']]
        k = max(0, (limit - hdr) // 4 + r.pick([-3, -2, -1, 0, 1, 2, 5]))
        sig = 'S' * k
        args = ', '.join(str(i & 0xff) for i in range(k))
        text = lg['wrap'](game, '%d: ins_%d(%s);\nins_%d(%s);' % (body_time, op, args, op, args))
        hdrs = lg['maphdr'].split('\n')
        mapfile = '%s\n%s\n%d %s\n' % (hdrs[0], hdrs[1] if len(hdrs) > 1 else '!ins_signatures', op, sig)
        replay = {'field': field, 'game': game, 'nargs': k, 'text': text[:300] + '...', 'mapfile': mapfile[:100]}
        res = compile_and_parse(ctx, lg['tool'], game, text, mapfile, lg['parse'], replay)
        if res is None: return
        if res[0] == 'rejected': ctx.count('rejected_with_diagnostic'); ctx.seen('reject_reasons', field + ': ' + core.norm_msg(core.headline(res[1]))[:70]); return
        if res[1] is None:
            ctx.violation('narrowing:%s:file-corrupt' % field, '%d arguments: compile succeeded but the file does not parse (%s)' % (k, res[3]), replay); return
        ins = first_instrs(lg, res[1])
        if len(ins) != 2 or any(len(i.blob) != 4 * k or i.opcode != op for i in ins):
            ctx.violation('narrowing:%s:instructions-lost' % field, '%d arguments: wrote %d instructions with blob sizes %s' % (k, len(ins), [len(i.blob) for i in ins][:4]), replay); return
        ctx.seen('fields', field); ctx.count('accepted_and_verified')
        if 4 * k + hdr >= limit - 8: ctx.count('beyond_boundary_values')
        ctx.fp('field', '%s %s %d' % (field, game, k - limit // 4))
        readback(ctx, lg['tool'], game, mapfile, field, replay)
        return
    hdrs = lg['maphdr'].split('\n')
    TAIL = 901 if lg['op_bits'] > 8 else 91
    arg0_as_param = what == 'arg0' and r.chance(0.5)      # the extra field can be set by a signature parameter or by the pseudo-argument
    mapfile = '%s\n%s\n%d %s\n%d %s\n' % (hdrs[0], hdrs[1] if len(hdrs) > 1 else '!ins_signatures', op, ('s(arg0)' + sig) if arg0_as_param else sig, TAIL, 'S__' if lg['key'] == 'std-06' else 'S')
    if arg0_as_param: body = '%d: ins_%d(%d, %d);\n+1: ins_%d(1);' % (body_time, op, v, val, TAIL)
    else: body = '%d: ins_%d(%s%d);\n+1: ins_%d(1);' % (body_time, op, pseudo, val, TAIL)
    text = lg['wrap'](game, body)
    replay = {'field': field, 'game': game, 'value': v, 'text': text, 'mapfile': mapfile}
    res = compile_and_parse(ctx, lg['tool'], game, text, mapfile, lg['parse'], replay)
    if res is None: return
    if res[0] == 'rejected':
        ctx.count('rejected_with_diagnostic'); ctx.seen('reject_reasons', field + ': ' + core.norm_msg(core.headline(res[1]))[:70])
        if 0 <= v < (1 << (bits - 1)): ctx.count('rejected_small_value'); ctx.seen('rejected_small', '%s=%d' % (field, v))
        return
    if res[1] is None:
        ctx.violation('narrowing:%s:file-corrupt' % field, '%s = %d: compile succeeded but the file does not parse (%s)' % (field, v, res[3]), replay); return
    ins = first_instrs(lg, res[1])
    if len(ins) != 2 or ins[1].opcode != TAIL:
        ctx.violation('narrowing:%s:instructions-lost' % field, '%s = %d: file holds %d instructions (opcodes %s), expected [%d, %d]' % (field, v, len(ins), [i.opcode for i in ins][:5], op, TAIL), replay); return
    i0 = ins[0]
    if what == 'time': stored = u(i0.time, bits)
    elif what == 'opcode': stored = u(i0.opcode, bits)
    elif what == 'mask': stored = u(i0.mask, bits)
    elif what == 'arg0': stored = u(i0.extra, bits)
    elif what == 'pop': stored = i0.extra['pop']
    elif what == 'argc': stored = i0.extra['argc']
    else: stored = int.from_bytes(i0.blob[:ARG_TYPES[ch][1]], 'little')
    if not judge_field(ctx, field, game, bits, v, stored, replay): return
    # the rest of the instruction is intact
    if what != 'opcode' and i0.opcode != op: ctx.violation('narrowing:%s:other-field-damaged' % field, 'opcode %d became %d' % (op, i0.opcode), replay); return
    if what != 'time' and i0.time != body_time: ctx.violation('narrowing:%s:other-field-damaged' % field, 'time %d became %d' % (body_time, i0.time), replay); return
    if what == 'time' and ins[1].time != v + 1 and -(1 << (bits - 1)) <= v + 1 < (1 << (bits - 1)):
        ctx.violation('narrowing:%s:relative-label' % field, 'label +1 after %d gives time %d' % (v, ins[1].time), replay); return
    if what not in ('arg',) and int.from_bytes(i0.blob[:4], 'little') != 7: ctx.violation('narrowing:%s:other-field-damaged' % field, 'argument 7 became %s' % i0.blob[:4].hex(), replay); return
    readback(ctx, lg['tool'], game, mapfile, field, replay)

def absent_pseudo_case(ctx, r):
    """A pseudo-argument that names an instruction-header field which this instruction format does not have (`@arg0=` outside
    TH06/TH07 timelines, `@mask=` where instructions carry no parameter mask, `@pop=`/`@nargs=` outside TH10+ ECL): a non-zero
    request cannot be stored anywhere, so the compile must not succeed in silence (an error, or at least a warning, is required)."""
    lg = r.pick(INSTR_LANGS); game = r.pick(lg['game' + 's'])
    cands = []
    if not lg['extra_bits']: cands.append('arg0')
    if not lg['mask_bits']: cands.append('mask')
    if lg['key'] != 'ecl10': cands += ['pop', 'nargs']
    if not cands: return
    what = r.pick(cands); v = r.pick([0, 1, 1, 2, 5, 255, 4])
    op = 900 if lg['op_bits'] > 8 else 90
    hdrs = lg['maphdr'].split('\n')
    sig = 'S__' if lg['key'] == 'std-06' else 'S'
    mapfile = '%s\n%s\n%d %s\n' % (hdrs[0], hdrs[1] if len(hdrs) > 1 else '!ins_signatures', op, sig)
    text = lg['wrap'](game, '5: ins_%d(@%s=%d, 7);' % (op, what, v))
    field = '%s.%s:absent-field' % (lg['key'], what)
    replay = {'field': field, 'game': game, 'value': v, 'text': text, 'mapfile': mapfile}
    src = ctx.write('c03.txt', text); out = os.path.join(ctx.dir, 'c03.bin')
    if os.path.exists(out): os.unlink(out)
    c = ctx.cli({'tool': lg['tool'], 'cmd': 'compile', 'game': game, 'in': src, 'out': out, 'maps': [ctx.write('c03.map', mapfile)]})
    ctx.evaluations += 1
    if 'panic' in c or 'abort' in c: ctx.inconcl('compile crash (C04)'); return
    ctx.seen('fields', field)
    if not c.get('ok'):
        if not core.has_error_diag(c.get('diag', '')): ctx.violation('narrowing:%s:fails-without-diagnostic' % lg['tool'], 'compile failed with no error diagnostic', replay); return
        ctx.count('rejected_with_diagnostic'); ctx.seen('reject_reasons', field + ': ' + core.norm_msg(core.headline(c.get('diag', '')))[:70]); return
    if v != 0 and not core.warnings_of(c.get('diag', '')):
        ctx.violation('narrowing:%s:dropped-silently' % field, '@%s=%d was accepted without any diagnostic although %s instructions of %s have no such field' % (what, v, lg['key'], game), replay); return
    data = ctx.read(out)
    try: ins = first_instrs(lg, lg['parse'](data, game))
    except (L.LayoutError, struct.error, IndexError, ValueError, TypeError) as e:
        ctx.violation('narrowing:%s:file-corrupt' % field, 'compile succeeded but the file does not parse (%s)' % e, replay); return
    if len(ins) != 1 or ins[0].opcode != op or ins[0].time != 5 or int.from_bytes(ins[0].blob[:4], 'little') != 7:
        ctx.violation('narrowing:%s:other-field-damaged' % field, 'the instruction written is not ins_%d(7) at time 5' % op, replay); return
    ctx.count('accepted_and_verified'); ctx.fp('field', '%s %s %d' % (field, game, v))

# ------------------------------------------------------------------------------------------ meta fields
def meta_case(ctx, r):
    k = r.wpick([('anm', 4), ('std', 4), ('msg', 2), ('mission', 2), ('std-str', 1.5), ('anm-img', 1.5)])
    mapfile = None; msg_mode = None
    if k == 'anm':
        game = r.pick(ANM_GAMES); new = L.ANM_VERSION[game] >= 7
        fields = {'rt_width': 16 if new else 32, 'rt_height': 16 if new else 32, 'rt_format': 16 if new else 32, 'memory_priority': 32}
        if new: fields.update({'offset_x': 16, 'offset_y': 16})
        else: fields['colorkey'] = 32
        fields['sprite_id'] = 32; fields['script_id'] = 32
        f = r.pick(sorted(fields)); bits = fields[f]; v = r.pick(boundary_values(r, bits))
        if f == 'sprite_id': text = anm_entry(game, sprites='s0: {id: %d, x: 0.0, y: 0.0, w: 1.0, h: 1.0}' % v) + 'script s0 { }\n'
        elif f == 'script_id': text = anm_entry(game) + 'script %d s0 { }\n' % v
        else: text = anm_entry(game, **{f: str(v)}) + 'script s0 { }\n'
        if f == 'script_id' and v < 0: text = anm_entry(game) + 'script -%d s0 { }\n' % -v
        tool, parse = 'anm', L.parse_anm
        get = {'sprite_id': lambda p: p[0]['sprites'][0]['id'], 'script_id': lambda p: u(p[0]['scripts'][0]['id'], 32)}.get(f, lambda p: p[0]['header'][f])
        field = 'anm.%s:%s' % (f, 'v7+' if new else 'v0-4')
    elif k == 'anm-img' and r.chance(0.12):
        # a header field that this version of the format has no room for: a non-zero request cannot be stored, so it must be refused
        game = r.pick(ANM_GAMES); new = L.ANM_VERSION[game] >= 7
        f = r.pick(['colorkey', 'path_2']) if new else r.pick(['offset_x', 'offset_y', 'low_res_scale'])
        v = r.pick([0, 1, 5, 255]) if f != 'low_res_scale' else r.pick([0, 1])
        if f == 'path_2': v = 1      # (a second path: old headers have an offset field for it, new headers do not)
        text = anm_entry(game, **{f: '"b.png"' if f == 'path_2' else ('true' if v else 'false') if f == 'low_res_scale' else str(v)}) + 'script s0 { }\n'
        field = 'anm.%s:%s:absent-field' % (f, 'v7+' if new else 'v0-4')
        replay = {'field': field, 'game': game, 'text': text}
        res = compile_and_parse(ctx, 'anm', game, text, None, L.parse_anm, replay)
        if res is None: return
        ctx.seen('fields', field)
        if res[0] == 'rejected':
            if v == 0: ctx.violation('narrowing:%s:rejects-zero' % field, 'a zero value needs no room, but: %s' % core.norm_msg(core.headline(res[1]))[:100], replay)
            else: ctx.count('rejected_with_diagnostic')
            return
        if v != 0: ctx.violation('narrowing:%s:dropped-silently' % field, '%s = %d was accepted although this format version cannot store it' % (f, v), replay); return
        ctx.count('accepted_and_verified'); readback(ctx, 'anm', game, None, field, replay)
        return
    elif k == 'anm-img' and r.chance(0.15):
        # virtual files: whatever is accepted must be readable again
        game = r.pick(ANM_GAMES)
        text = anm_entry(game, path='"%s"' % r.pick(['@', '@R', '@x']), has_data=r.pick(['"dummy"', 'false']), img_width='4', img_height='4') + 'script s0 { }\n'
        replay = {'field': 'anm.virtual-path', 'game': game, 'text': text}
        res = compile_and_parse(ctx, 'anm', game, text, None, L.parse_anm, replay)
        if res is None: return
        if res[0] == 'rejected': ctx.count('rejected_with_diagnostic'); ctx.seen('reject_reasons', 'anm.virtual-path: ' + core.norm_msg(core.headline(res[1]))[:70]); return
        ctx.seen('fields', 'anm.virtual-path'); ctx.count('accepted_and_verified')
        readback(ctx, 'anm', game, None, 'anm.virtual-path', replay)
        return
    elif k == 'anm-img':
        game = r.pick(ANM_GAMES); new = L.ANM_VERSION[game] >= 7
        f = r.pick(['img_width', 'img_height', 'img_format']); bits = 16
        v = r.pick([x for x in boundary_values(r, 16) if x <= 300000])
        kw = {'has_data': '"dummy"', 'img_width': '1', 'img_height': '1', 'rt_width': '1', 'rt_height': '1'}; kw[f] = str(v)
        if f == 'img_format': v = r.pick([1, 3, 5, 7, 0, 2, 9, 65535, 65536 + 1, 65536 + 3, -1]); kw[f] = str(v)
        text = anm_entry(game, **kw) + 'script s0 { }\n'
        tool, parse = 'anm', L.parse_anm
        get = lambda p: p[0]['thtx'][{'img_width': 'width', 'img_height': 'height', 'img_format': 'format'}[f]]
        field = 'anm.thtx.%s' % f
    elif k == 'std':
        game = r.pick(STD_GAMES)
        f = r.pick(['layer', 'anm_script', 'inst_unknown', 'unknown']); bits = {'layer': 16, 'anm_script': 16, 'inst_unknown': 16, 'unknown': 32}[f]
        v = r.pick(boundary_values(r, bits))
        if f == 'layer': text = std_meta(game, layer=str(v))
        elif f == 'anm_script': text = std_meta(game, quad='rect {anm_script: %d, pos: [0.0,0.0,0.0], size: [1.0,1.0]}' % v)
        elif f == 'inst_unknown': text = std_meta(game, inst='obja {unknown: %d, pos: [0.0,0.0,0.0]}' % v)
        else: text = std_meta(game, unknown=str(v))
        text += 'script main { }\n'
        tool, parse = 'std', L.parse_std
        get = {'layer': lambda p: p['objects'][0]['layer'], 'anm_script': lambda p: p['objects'][0]['quads'][0]['anm_script'],
               'inst_unknown': lambda p: p['instances'][0]['unknown'], 'unknown': lambda p: p['unknown']}[f]
        field = 'std.%s' % f
    elif k == 'std-str':
        game = r.pick(STD_GAMES); new = L.std_is_new(game)
        f = 'anm_path' if new else r.pick(['stage_name', 'bgm_path', 'bgm_name'])
        n = r.pick([120, 126, 127, 128, 129, 135, 200]) + r.randint(-1, 1)
        s = ''.join(r.pick('abcdefgh') for _ in range(n))
        text = std_meta(game, strs={f: s}) + 'script main { }\n'
        replay = {'field': 'std.' + f, 'game': game, 'strlen': n, 'text': text}
        res = compile_and_parse(ctx, 'std', game, text, None, L.parse_std, replay)
        if res is None: return
        if res[0] == 'rejected': ctx.count('rejected_with_diagnostic'); ctx.seen('reject_reasons', 'std.%s: %s' % (f, core.norm_msg(core.headline(res[1]))[:70])); return
        if res[1] is None: ctx.violation('narrowing:std.%s:file-corrupt' % f, res[3], replay); return
        p = res[1]
        buf = {'anm_path': lambda: p['anm_path'], 'stage_name': lambda: p['stage_name'], 'bgm_path': lambda: p['bgm_paths'][1], 'bgm_name': lambda: p['bgm_names'][2]}[f]()
        if buf.split(b'\0')[0] != s.encode() or b'\0' not in buf:
            ctx.violation('narrowing:std.%s:string-truncated' % f, 'string of %d bytes stored as %d bytes (NUL-terminated: %s)' % (n, len(buf.split(b'\0')[0]), b'\0' in buf), replay); return
        ctx.seen('fields', 'std.' + f); ctx.count('accepted_and_verified'); ctx.fp('field', 'std.%s %s %d' % (f, game, n))
        if n >= 126: ctx.count('beyond_boundary_values')
        readback(ctx, 'std', game, None, 'std.' + f, replay)
        return
    elif k == 'msg':
        game = r.pick([g for g in MSG_GAMES if L.msg_has_flags(g)])
        f = 'flags'; bits = 32; v = r.pick(boundary_values(r, 16) + boundary_values(r, 32))
        text = 'meta { table: {0: {script: "s0", flags: %d}} }\nscript s0 { ins_90(5); }\n' % v
        mapfile = '!msgmap\n!ins_signatures\n90 S\n'
        tool, parse = 'msg', L.parse_msg
        get = lambda p: p['table'][0][1]
        field = 'msg.table.flags'
    else:
        game = r.pick(['th095', 'th125'])
        fields = {'stage': 16, 'scene': 16} if game == 'th095' else {'stage': 16, 'scene': 16, 'player': 16, 'unknown_1': 8, 'unknown_2': 8}
        fields.update({'face': 32, 'point': 32} if game == 'th095' else {'point_1': 32, 'point_2': 32})
        f = r.pick(sorted(fields)); bits = fields[f]; v = r.pick(boundary_values(r, bits))
        base = ({'stage': 1, 'scene': 2, 'face': 0, 'point': 100} if game == 'th095' else {'stage': 1, 'scene': 2, 'player': 0, 'unknown_1': 1, 'unknown_2': 2, 'point_1': 5, 'point_2': 6})
        base[f] = v
        fs = ['%s: %d' % kv for kv in base.items()]
        if game != 'th095': fs.append('furigana: [[0,0],[0,0],[0,0]]')
        fs.append('text: [%s]' % ', '.join('"l%d"' % i for i in range(3 if game == 'th095' else 6)))
        text = 'entry { %s }\n' % ', '.join(fs)
        tool, parse, msg_mode = 'msg', L.parse_mission, 'mission'
        get = lambda p: p['entries'][0][f]
        field = 'mission.%s:%s' % (f, game)
        other = lambda p: p['entries'][0]['text'][0] == b'l0'
    replay = {'field': field, 'game': game, 'value': v, 'text': text}
    res = compile_and_parse(ctx, tool, game, text, mapfile, parse, replay, msg_mode=msg_mode)
    if res is None: return
    if res[0] == 'rejected':
        ctx.count('rejected_with_diagnostic'); ctx.seen('reject_reasons', field + ': ' + core.norm_msg(core.headline(res[1]))[:70])
        if 0 <= v < (1 << (bits - 1)): ctx.count('rejected_small_value'); ctx.seen('rejected_small', '%s=%d' % (field, v))
        return
    if res[1] is None: ctx.violation('narrowing:%s:file-corrupt' % field, '%s = %d: %s' % (field, v, res[3]), replay); return
    try: stored = get(res[1])
    except (IndexError, KeyError, TypeError) as e:
        ctx.violation('narrowing:%s:table-lost' % field, '%s = %d: the written file lacks the item (%s)' % (field, v, e), replay); return
    if not judge_field(ctx, field, game, bits, v, u(stored, bits), replay): return
    if k == 'mission' and not other(res[1]):
        ctx.violation('narrowing:%s:other-field-damaged' % field, 'text does not decode any more', replay); return
    readback(ctx, tool, game, mapfile, field, replay, msg_mode=msg_mode)

# ------------------------------------------------------------------------------------------ counts
def count_case(ctx, r, which=None):
    which = which or r.pick(['anm-sprites', 'anm-scripts', 'std-objects', 'std-quads', 'ecl06-subs', 'std-instances'])
    n = r.pick([65534, 65535, 65536, 65537, 70000])
    if which == 'anm-sprites':
        game = r.pick(['th12', 'th14', 'th17'])
        text = anm_entry(game, sprites=', '.join('s%d: {x: 0.0, y: 0.0, w: 1.0, h: 1.0}' % i for i in range(n)))
        tool, parse, get, bits = 'anm', L.parse_anm, (lambda p: (p[0]['header']['num_sprites'], len(p[0]['sprites']))), 16
    elif which == 'anm-scripts':
        game = r.pick(['th12', 'th14', 'th17'])
        text = anm_entry(game) + ''.join('script s%d { }\n' % i for i in range(n))
        tool, parse, get, bits = 'anm', L.parse_anm, (lambda p: (p[0]['header']['num_scripts'], len(p[0]['scripts']))), 16
    elif which == 'std-objects':
        game = r.pick(STD_GAMES)
        objs = ', '.join('o%d: {layer: 1, pos: [0.0,0.0,0.0], size: [1.0,1.0,1.0], quads: []}' % i for i in range(n))
        text = std_meta(game).replace('objects: {', 'objects: {' + objs + ', ') + 'script main { }\n'
        n += 1
        tool, parse, get, bits = 'std', L.parse_std, (lambda p: (p['num_objects'], len(p['objects']))), 16
    elif which == 'std-quads':
        game = r.pick(STD_GAMES)
        q = ', '.join(['rect {anm_script: 2, pos: [0.0,0.0,0.0], size: [1.0,1.0]}'] * n)
        text = std_meta(game, quad=q) + 'script main { }\n'
        tool, parse, get, bits = 'std', L.parse_std, (lambda p: (p['num_quads'], sum(len(o['quads']) for o in p['objects']))), 16
    elif which == 'std-instances':
        game = r.pick(STD_GAMES)
        text = std_meta(game, inst=', '.join(['obja {pos: [0.0,0.0,0.0]}'] * n)) + 'script main { }\n'
        tool, parse, get, bits = 'std', L.parse_std, (lambda p: (n, len(p['instances']))), 32
    else:
        game = r.pick(ECL06_GAMES)
        text = ''.join('void s%d() { }\n' % i for i in range(n))
        tool, parse, get, bits = 'ecl', L.parse_ecl06, (lambda p: (p['num_subs'], len(p['subs']))), 16
    field = 'count.' + which
    replay = {'field': field, 'game': game, 'count': n, 'text': text[:300] + '...'}
    res = compile_and_parse(ctx, tool, game, text, None, parse, replay)
    if res is None: return
    ctx.count('count_cases'); ctx.seen('fields', field)
    if res[0] == 'rejected': ctx.count('rejected_with_diagnostic'); ctx.seen('reject_reasons', field + ': ' + core.norm_msg(core.headline(res[1]))[:70]); return
    if res[1] is None: ctx.violation('narrowing:%s:file-corrupt' % field, '%d items: %s' % (n, res[3]), replay); return
    stored, actual = get(res[1])
    if stored != n or actual != n:
        ctx.violation('narrowing:%s:stored-different-value' % field, '%d items requested: count field holds %d, %d items readable' % (n, stored, actual), replay); return
    ctx.count('accepted_and_verified'); ctx.count('beyond_boundary_values'); ctx.fp('field', '%s %s %d' % (field, game, n))
    readback(ctx, tool, game, None, field, replay)

def string_table_case(ctx, r):
    """Modern ECL: the ANIM / ECLI include lists and the sub-name table are lists of NUL-terminated Shift-JIS strings padded to 4 bytes;
    names of every byte length (multi-byte characters: byte length != character count) must come back, and the file must be readable."""
    game = r.pick(ECL10_GAMES)
    def name(ext=''):
        n = r.randint(1, 9)
        return ''.join(r.pick(['a', 'b', 'c', '_', 'x', '\u6575', '\u5f3e', '\u30a2', '\u3042']) if r.chance(0.6) else r.pick('abcdefgh') for _ in range(n)) + ext
    anim = [name('.anm') for _ in range(r.randint(0, 3))]; ecli = [name('.ecl') for _ in range(r.randint(0, 3))]
    subs = []
    while len(subs) < r.randint(1, 4):
        nm = r.pick(['sub', 'Boss', 's']) + ''.join(r.pick('abcxyz0123456789_') for _ in range(r.randint(0, 9)))
        if nm not in subs: subs.append(nm)
    text = 'meta { anim: [%s], ecli: [%s] }\n' % (', '.join('"%s"' % x for x in anim), ', '.join('"%s"' % x for x in ecli))
    text += ''.join('void %s() {\n ins_900(%d);\n}\n' % (nm, k) for k, nm in enumerate(subs))
    mapfile = '!eclmap\n!ins_signatures\n900 S\n'
    field = 'ecl10.string-tables'
    replay = {'field': field, 'game': game, 'text': text, 'mapfile': mapfile}
    res = compile_and_parse(ctx, 'ecl', game, text, mapfile, L.parse_ecl10, replay)
    if res is None: return
    if res[0] == 'rejected': ctx.count('rejected_with_diagnostic'); ctx.seen('reject_reasons', field + ': ' + core.norm_msg(core.headline(res[1]))[:70]); return
    if res[1] is None:
        ctx.violation('narrowing:%s:file-corrupt' % field, 'include lists %s / %s: compile succeeded but the file does not parse (%s)' % (anim, ecli, res[3]), replay); return
    p = res[1]
    got = ([x.decode('shift_jis', 'replace') for x in p['anim']], [x.decode('shift_jis', 'replace') for x in p['ecli']], [sb['name'].decode('shift_jis', 'replace') for sb in p['subs']])
    if got != (anim, ecli, subs):
        ctx.violation('narrowing:%s:strings-changed' % field, 'wrote %s, file holds %s' % ((anim, ecli, subs), got), replay); return
    if [int.from_bytes(sb['instrs'][0].blob[:4], 'little') for sb in p['subs']] != list(range(len(subs))):
        ctx.violation('narrowing:%s:subs-damaged' % field, 'sub bodies do not follow the name table', replay); return
    ctx.seen('fields', field); ctx.count('accepted_and_verified'); ctx.count('string_tables')
    ctx.fp('field', '%s %s %d %d' % (field, game, sum(len(x.encode('shift_jis')) + 1 for x in anim) % 4, sum(len(x.encode('shift_jis')) + 1 for x in ecli) % 4))
    readback(ctx, 'ecl', game, mapfile, field, replay)

def run_shard(ctx):
    r = ctx.rng
    n = SIZES[ctx.tier] // ctx.nshards + 1
    kinds = ['anm-sprites', 'anm-scripts', 'std-objects', 'std-quads', 'ecl06-subs', 'std-instances']
    if ctx.tier == 'thorough' or ctx.shard < len(kinds):
        count_case(ctx, r, kinds[ctx.shard % len(kinds)])
    for i in range(n):
        k = r.random()
        if k < 0.05: string_table_case(ctx, r)
        elif k < 0.58: instr_case(ctx, r)
        elif k < 0.62: absent_pseudo_case(ctx, r)
        else: meta_case(ctx, r)

def replay(path):
    rec = json.load(open(path)); print(json.dumps(rec, indent=1)[:3000]); return 0
