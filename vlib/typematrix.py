"""A finite matrix of small typed constructs x operand types, with the verdict the documented typing rules give.

Used by C09 (accept/reject must match, in any nesting) and fed to C04 (no cell may crash the compiler).
Rules (doc/syntax.md "Expressions", comments in passes/type_check.rs): arithmetic and comparison operators take two operands of the
same numeric type; bitwise, shift and logical operators, `!` and `~` take ints; sin/cos/sqrt take floats; conditions, ternary
conditions and loop counts are ints; the two branches of a ternary, the cases of a difficulty switch, both sides of an assignment
have the same type; compound assignment follows the operator's class; call arguments have the parameter's type."""

ARITH = ['+', '-', '*', '/', '%']
CMP = ['==', '!=', '<', '<=', '>', '>=']
INTONLY = ['&', '|', '^', '<<', '>>', '>>>', '&&', '||']
ASSIGN_NUM = ['+=', '-=', '*=', '/=', '%=']
ASSIGN_INT = ['&=', '|=', '^=', '<<=', '>>=', '>>>=']

def cells(ireg, freg, ireg2, freg2, call_int, call_float):
    """-> list of (tag, statement text, expected) with expected in {'accept', 'reject'}.  ireg/freg: register texts."""
    atoms = {'i': ['3', ireg2], 'f': ['2.5', freg2], 's': ['"str"']}
    dst = {'i': ireg, 'f': freg}
    out = []
    def A(t, k): return atoms[t][k % len(atoms[t])]
    for k in range(2):
        for ta in 'ifs':
            for tb in 'ifs':
                a, b = A(ta, k), A(tb, k + 1)
                for op in ARITH:
                    ok = ta == tb and ta in 'if'
                    d = dst[ta] if ok else dst['i']
                    out.append(('binop %s %s%s' % (op, ta, tb), '%s = %s %s %s;' % (d, a, op, b), 'accept' if ok else 'reject'))
                for op in CMP:
                    ok = ta == tb and ta in 'if'
                    out.append(('binop %s %s%s' % (op, ta, tb), '%s = %s %s %s;' % (dst['i'], a, op, b), 'accept' if ok else 'reject'))
                for op in INTONLY:
                    ok = ta == tb == 'i'
                    out.append(('binop %s %s%s' % (op, ta, tb), '%s = %s %s %s;' % (dst['i'], a, op, b), 'accept' if ok else 'reject'))
                    if ta == tb == 'f':   # a consistent all-float use is still ill-typed
                        out.append(('binop %s ff->f' % op, '%s = %s %s %s;' % (dst['f'], a, op, b), 'reject'))
        for ta in 'if':
            a = A(ta, k)
            out.append(('unop - %s' % ta, '%s = -%s;' % (dst[ta], a if not a.startswith('-') else '(' + a + ')'), 'accept'))
            for op in '!~':
                out.append(('unop %s %s' % (op, ta), '%s = %s(%s);' % (dst['i'], op, a), 'accept' if ta == 'i' else 'reject'))
                if ta == 'f': out.append(('unop %s f->f' % op, '%s = %s(%s);' % (dst['f'], op, a), 'reject'))
            for fn in ('sin', 'cos', 'sqrt'):
                out.append(('unop %s %s' % (fn, ta), '%s = %s(%s);' % (dst['f'], fn, a), 'accept' if ta == 'f' else 'reject'))
                if ta == 'i': out.append(('unop %s i->i' % fn, '%s = %s(%s);' % (dst['i'], fn, a), 'reject'))
            # assignment and compound assignment
            for td in 'if':
                out.append(('assign = %s<-%s' % (td, ta), '%s = %s;' % (dst[td], a), 'accept' if td == ta else 'reject'))
                for op in ASSIGN_NUM:
                    out.append(('assign %s %s<-%s' % (op, td, ta), '%s %s %s;' % (dst[td], op, a), 'accept' if td == ta else 'reject'))
                for op in ASSIGN_INT:
                    out.append(('assign %s %s<-%s' % (op, td, ta), '%s %s %s;' % (dst[td], op, a), 'accept' if td == ta == 'i' else 'reject'))
            # conditions and counts
            ok = 'accept' if ta == 'i' else 'reject'
            out.append(('if-cond %s' % ta, 'if (%s) {\n%s = 1;\n}' % (a, dst['i']), ok))
            out.append(('unless-cond %s' % ta, 'unless (%s) {\n%s = 1;\n}' % (a, dst['i']), ok))
            out.append(('while-cond %s' % ta, 'while (%s) {\nbreak;\n}' % a, ok))
            out.append(('dowhile-cond %s' % ta, 'do {\nbreak;\n} while (%s);' % a, ok))
            out.append(('ternary-cond %s' % ta, '%s = %s ? 1 : 2;' % (dst['i'], a), ok))
            out.append(('ternary-cond %s (float branches)' % ta, '%s = %s ? 1.5 : 2.5;' % (dst['f'], a), ok))
            out.append(('times-count %s' % ta, 'times(%s) {\n}' % a, ok))
            for tc in 'if':
                out.append(('times-clobber %s=%s' % (tc, ta), 'times(%s = %s) {\n}' % (dst[tc], a), 'accept' if tc == ta == 'i' else 'reject'))
            for tb in 'if':
                b = A(tb, k + 1)
                out.append(('ternary-branches %s%s' % (ta, tb), '%s = %s ? %s : %s;' % (dst[ta], ireg2, a, b), 'accept' if ta == tb else 'reject'))
                out.append(('diffswitch-cases %s%s' % (ta, tb), '%s = (%s:%s);' % (dst[ta], a, b), 'accept' if ta == tb else 'reject'))
            out.append(('call-arg S<-%s' % ta, '%s(%s);' % (call_int, a), 'accept' if ta == 'i' else 'reject'))
            out.append(('call-arg f<-%s' % ta, '%s(%s);' % (call_float, a), 'accept' if ta == 'f' else 'reject'))
            out.append(('cond-jump %s' % ta, 'if (%s) goto lbl;\nlbl:' % a, ok))
    # calls whose signature has padding between parameters of different types: the argument types follow the parameters, not the slots
    for fn, want_types in (('pad_Sf', 'if'), ('pad_fS', 'fi'), ('pad_bf', 'if'), ('pad_f__S', 'fi')):
        for t1 in 'if':
            for t2 in 'if':
                out.append(('call-args-with-padding %s(%s,%s)' % (fn, t1, t2), '%s(%s, %s);' % (fn, A(t1, 0), A(t2, 1)), 'accept' if t1 + t2 == want_types else 'reject'))
        out.append(('call-args-with-padding %s arity' % fn, '%s(%s);' % (fn, A(want_types[0], 0)), 'reject'))
        out.append(('call-args-with-padding %s arity+' % fn, '%s(%s, %s, 0);' % (fn, A(want_types[0], 0), A(want_types[1], 1)), 'reject'))
    # consts: readable in their own type, never writable, and a string const takes no sigil
    C = 'const int KCI = 3;\nconst float KCF = 1.5;\nconst string KCS = "abc";\n'
    for k, (stmt, want) in enumerate([
            ('%s = KCI;' % dst['i'], 'accept'), ('%s = KCF;' % dst['f'], 'accept'), ('%s = KCF;' % dst['i'], 'reject'), ('%s = KCI;' % dst['f'], 'reject'),
            ('%s = KCS;' % dst['i'], 'reject'), ('%s = $KCS;' % dst['i'], 'reject'), ('%s = %%KCS;' % dst['f'], 'reject'), ('%s = 1.0 + (%s ? %%KCS : 2.0);' % (dst['f'], ireg2), 'reject'),
            ('%s = $KCF;' % dst['i'], 'accept'), ('%s = %%KCI;' % dst['f'], 'accept'),
            ('KCI = 1;', 'reject'), ('KCI += 1;', 'reject'), ('KCF = 2.5;', 'reject'), ('KCF *= 2.0;', 'reject'), ('times(KCI = 3) {\n}', 'reject'), ('times(KCI) {\n}', 'accept'),
            ('$KCI = 1;', 'reject'), ('%s(KCI);' % call_int, 'accept'), ('%s(KCF);' % call_int, 'reject'), ('%s(KCS);' % call_int, 'reject'), ('if (KCI) {\n}', 'accept'), ('if (KCF) {\n}', 'reject')]):
        out.append(('const %d: %s' % (k, stmt.split('\n')[0]), C + stmt, want))
    return out

WRAPPERS = [('top', '%s'), ('block', '{\n%s\n}'), ('block3', '{\n{\n{\n%s\n}\n}\n}'), ('in-if', 'if (%(i)s == 1) {\n%%s\n}'), ('in-else', 'if (%(i)s == 1) {\n} else {\n%%s\n}'),
            ('in-loop', 'loop {\n%s\nbreak;\n}'), ('in-times', 'times(2) {\n%s\n}'), ('in-while-block', 'while (%(i)s < 1) {\n{\n%%s\n}\nbreak;\n}')]

def wrap(rng, stmt, ireg):
    name, w = rng.pick(WRAPPERS)
    if '%(i)s' in w: w = w % {'i': ireg}
    return name, w % stmt
