"""Field-targeted mutations of binaries, driven by the independent layout parsers (vlib/layout.py).

`field_map` runs the layout parser of the file's format with read tracing on and returns every scalar field it read
(offset, width) and every bulk region (instruction blobs, texture data, strings).  `mutate_field` sets one field to a boundary
value; `truncate_points` lists every field boundary.  Nothing here knows what truth does with a field."""
from . import layout as L

def _parser(tool, game, msg_mode):
    if tool == 'anm': return lambda d: L.parse_anm(d, game)
    if tool == 'std': return lambda d: L.parse_std(d, game)
    if tool == 'msg': return (lambda d: L.parse_mission(d, game)) if msg_mode == 'mission' else (lambda d: L.parse_msg(d, game))
    if tool == 'ecl': return (lambda d: L.parse_ecl06(d, game)) if game in ('th06', 'th07', 'th08', 'th09', 'th095') else (lambda d: L.parse_ecl10(d, game))
    raise ValueError(tool)

def field_map(tool, game, msg_mode, data):
    """-> (fields [(offset, width in {1,2,4})], regions [(offset, length)]) of everything the layout parser read."""
    L.TRACE = []
    try:
        try: _parser(tool, game, msg_mode)(data)
        except Exception: pass
        tr = L.TRACE
    finally:
        L.TRACE = None
    fields = sorted({(p, n) for p, n in tr if n in (1, 2, 4)})
    regions = sorted({(p, n) for p, n in tr if n not in (1, 2, 4) and n > 0})
    return fields, regions

def boundary_values(rng, width, cur, filelen, pos):
    top = (1 << (8 * width)) - 1
    half = 1 << (8 * width - 1)
    c = [0, 1, 2, top, top - 1, half, half - 1, half + 1, (cur + 1) & top, (cur - 1) & top, (cur * 2) & top, (cur ^ half), (cur + 4) & top, (cur - 4) & top,
         filelen & top, (filelen - pos) & top, (filelen - pos + 1) & top, (filelen + 1) & top, (cur + filelen) & top, rng.getrandbits(8 * width), 0x10000 & top, 0xffff & top,
         3, 7, 8, 12, 16, 255, 256, 4000000000 & top]
    return sorted({v & top for v in c if (v & top) != cur})

def mutate_field(rng, data, fields):
    """Set one recorded field to a boundary value.  Returns (bytes, description)."""
    pos, width = rng.pick(fields)
    cur = int.from_bytes(data[pos:pos + width], 'little')
    v = rng.pick(boundary_values(rng, width, cur, len(data), pos))
    d = bytearray(data); d[pos:pos + width] = v.to_bytes(width, 'little')
    return bytes(d), {'kind': 'field', 'pos': pos, 'width': width, 'old': cur, 'new': v}

def mutate_region(rng, data, regions):
    """Damage the inside of a bulk region (blob / string / texture bytes)."""
    pos, n = rng.pick(regions)
    d = bytearray(data)
    k = rng.pick(['byte', 'zero-run', 'ff-run', 'nul-at-end', 'no-nul'])
    q = pos + rng.randrange(n)
    if k == 'byte': d[q] = rng.pick([0, 0xff, 0x80, 0x5c, 0x7c, 0x81, d[q] ^ 0x80])
    elif k == 'zero-run': d[q:min(pos + n, q + 8)] = bytes(min(pos + n, q + 8) - q)
    elif k == 'ff-run': d[q:min(pos + n, q + 8)] = b'\xff' * (min(pos + n, q + 8) - q)
    elif k == 'nul-at-end': d[pos + n - 1] = 0x41
    else:
        for i in range(pos, pos + n):
            if d[i] == 0: d[i] = 0x42
    return bytes(d), {'kind': 'region-' + k, 'pos': pos, 'len': n}

def mutate_argword(rng, data, regions):
    """Set one aligned 32-bit word inside a bulk region (an instruction's argument blob: register ids, jump targets, the length
    prefix of a length-prefixed string, counts) to a boundary value.  Returns (bytes, description)."""
    cands = [(p, n) for p, n in regions if n >= 4]
    if not cands: return mutate_region(rng, data, regions)
    pos, n = rng.pick(cands)
    q = pos + 4 * rng.randrange(n // 4)
    cur = int.from_bytes(data[q:q + 4], 'little')
    v = rng.pick(boundary_values(rng, 4, cur, len(data), q) + [n, n - (q - pos), n - (q - pos) - 3, n - (q - pos) + 1, 0x40, 0x7fffffff])
    d = bytearray(data); d[q:q + 4] = (v & 0xffffffff).to_bytes(4, 'little')
    return bytes(d), {'kind': 'argword', 'pos': q, 'region': [pos, n], 'old': cur, 'new': v & 0xffffffff}

def truncate_points(fields, regions, filelen):
    pts = {p for p, _ in fields} | {p + w for p, w in fields} | {p for p, _ in regions} | {p + n for p, n in regions}
    pts |= {p + 1 for p, w in fields if w > 1}
    return sorted(x for x in pts if 0 <= x < filelen)
