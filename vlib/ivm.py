"""Independent interpreter for *emitted instruction streams* (C02's second oracle).

C02's first oracle runs the source and raise(lower(source)) on truth's own AstVm: it is blind to a mistake that the encoder and
the decoder share (e.g. both halves reading an intrinsic's operands in the wrong order through the same ABI helper), because
the decompiler undoes what the compiler did.  This interpreter closes that gap: it executes the instructions the compiler
emitted *without decompiling them*, from nothing but the mapfile that defines the language (signatures, intrinsic kinds) and
the documented meaning of each intrinsic kind (doc-comments of `IntrinsicInstrKind`, README):

    Jmp            goto o @ t                       CountJmp       if (--x) goto o @ t   (op=">": if (--x > 0) ...)
    AssignOp(op)   a op= b                          CondJmp(op)    if (a op b) goto o @ t
    BinOp(op)      a = b op c                       DedicatedCmp   hidden_cmp = (a, b);  DedicatedCmpJmp(op): if (cmp) goto o @ t
    UnOp(op)       a = op b                         Interrupt      no effect on straight-line execution
    anything else  an instruction call: logged with the values of its arguments

Time: before an instruction with time T executes the clock advances to T if it is behind (never backwards); a jump sets the
clock to its time argument; an instruction whose difficulty mask excludes the current difficulty is skipped (after the wait).
Argument decoding follows the signature: 4-byte little-endian ints / IEEE floats, one mask bit per non-padding parameter,
set = register (for float parameters the register id is stored as a float).  Label offsets are absolute byte offsets with
instruction size = 4 + argument bytes (TestLanguage).  Arithmetic is vlib/models/eval.py (written for C11, shares no code
with truth).  Shares no code with truth's raise path."""
import struct
from . import sig as SIG
from .models import eval as EV

class Unjudged(Exception):
    pass

def parse_mapfile(text):
    sigs, intr = {}, {}
    sect = None
    for line in text.splitlines():
        line = line.strip()
        if not line or line.startswith('#'): continue
        if line.startswith('!'): sect = line; continue
        k, _, v = line.partition(' ')
        if sect == '!ins_signatures': sigs[int(k)] = SIG.parse_sig(v.strip())
        elif sect == '!ins_intrinsics': intr[int(k)] = parse_intrinsic(v.strip())
    return sigs, intr

def parse_intrinsic(s):
    name, _, rest = s.partition('(')
    attrs = {}
    for part in rest.rstrip(')').split(';'):
        if '=' in part:
            k, v = part.split('=', 1); attrs[k.strip()] = v.strip().strip('"')
    return name.strip(), attrs

def sat_i32(x):
    if x != x: return 0
    if x >= 2147483647.0: return 2147483647
    if x <= -2147483648.0: return -2147483648
    return int(x)

class Machine:
    def __init__(self, instrs, sigs, intr, regs, difficulty, max_steps=24000):
        self.ins = instrs; self.sigs = sigs; self.intr = intr
        self.regs = dict(regs)            # reg id -> ('i', int) | ('f', float)
        self.d = difficulty
        self.max_steps = max_steps
        self.time = 0; self.real = 0; self.log = []; self.cmp = None
        self.offsets = []; o = 0
        for i in instrs:
            self.offsets.append(o); o += 4 + len(i['blob']) // 2
        self.end = o
        self.by_off = {off: k for k, off in enumerate(self.offsets)}
        self.by_off[self.end] = len(instrs)

    # --- register access in a parameter's type
    def read(self, reg, ty):
        if reg not in self.regs: raise Unjudged('read of a register that was never written: %d' % reg)
        k, v = self.regs[reg]
        if ty == 'i': return v if k == 'i' else sat_i32(v)
        return EV.f32(float(v)) if k == 'i' else v
    def write(self, reg, ty, v): self.regs[reg] = (ty, v)

    def decode(self, ins):
        """-> list of (param char, is_reg, raw) for the non-padding parameters"""
        ps = self.sigs.get(ins['opcode'])
        if ps is None: raise Unjudged('no signature for opcode %d' % ins['opcode'])
        blob = bytes.fromhex(ins['blob']); pos = 0; mask = ins['mask']; out = []
        for p in ps:
            if p.is_padding: pos += p.size; continue
            if p.size != 4: raise Unjudged('parameter kind %s' % p.ch)
            raw = blob[pos:pos + 4]; pos += 4
            if len(raw) != 4: raise Unjudged('short blob')
            bit = mask & 1; mask >>= 1
            if p.ch in 'ot': bit = 0
            out.append((p.ch, bool(bit), raw))
        if pos != len(blob): raise Unjudged('blob longer than its signature')
        return out

    def val(self, a, want=None):
        """value of a decoded argument in the type of its parameter (int for S/o/t, float for f)"""
        ch, is_reg, raw = a
        if ch == 'f':
            x = struct.unpack('<f', raw)[0]
            if is_reg: return self.read(int(x), 'f')
            return x
        x = struct.unpack('<i', raw)[0]
        if is_reg: return self.read(x, 'i')
        return x
    def regid(self, a):
        ch, is_reg, raw = a
        if not is_reg: raise Unjudged('output operand is not a register')
        return int(struct.unpack('<f', raw)[0]) if ch == 'f' else struct.unpack('<i', raw)[0]

    def jump(self, off, t):
        if off not in self.by_off: raise Unjudged('jump to a non-instruction offset %d' % off)
        self.time = t
        return self.by_off[off]

    def split_jump(self, args):
        """(plain args, offset, time) - o/t in either order, wherever they are"""
        o = [struct.unpack('<i', a[2])[0] for a in args if a[0] == 'o']
        t = [struct.unpack('<i', a[2])[0] for a in args if a[0] == 't']
        if len(o) != 1 or len(t) > 1: raise Unjudged('jump signature')
        return [a for a in args if a[0] not in 'ot'], o[0], (t[0] if t else None)

    def compare(self, op, a, b, ty):
        v, _ = EV.binop(op, a, b, EV.INT if ty == 'i' else EV.FLOAT)
        return v != 0

    def run(self):
        pc = 0; steps = 0
        n = len(self.ins)
        while pc < n:
            steps += 1
            if steps > self.max_steps: raise Unjudged('step limit')
            ins = self.ins[pc]
            if self.time < ins['time']:
                self.real += ins['time'] - self.time; self.time = ins['time']
            if ins.get('diff') is not None and not (ins['diff'] >> self.d) & 1:
                pc += 1; continue
            kind = self.intr.get(ins['opcode'])
            args = self.decode(ins)
            if kind is None:
                self.log.append((self.real, ins['opcode'], [('f', EV.bits_of(self.val(a))) if a[0] == 'f' else ('i', self.val(a)) for a in args]))
                pc += 1; continue
            name, at = kind
            ty = {'int': 'i', 'float': 'f'}.get(at.get('type'))
            E = EV.INT if ty == 'i' else EV.FLOAT
            try:
                if name == 'Jmp':
                    _, o, t = self.split_jump(args)
                    pc = self.jump(o, t if t is not None else self.label_time(o)); continue
                if name == 'Interrupt':
                    pc += 1; continue
                if name == 'AssignOp':
                    dst = self.regid(args[0]); b = self.val(args[1])
                    op = at['op']
                    if op == '=': v = b
                    else: v, _ = EV.binop(op[:-1], self.read(dst, ty), b, E)
                    self.write(dst, ty, v); pc += 1; continue
                if name == 'BinOp':
                    dst = self.regid(args[0]); a = self.val(args[1]); b = self.val(args[2])
                    v, rty = EV.binop(at['op'], a, b, E)
                    self.write(dst, 'i' if rty == EV.INT else 'f', v); pc += 1; continue
                if name == 'UnOp':
                    dst = self.regid(args[0]); a = self.val(args[1])
                    if at['op'] in ('sin', 'cos', 'tan', 'asin', 'acos', 'atan'): raise Unjudged('library function (last-bit differences between libms)')
                    v, rty = EV.unop(at['op'], a, E)
                    self.write(dst, 'i' if rty == EV.INT else 'f', v); pc += 1; continue
                if name == 'CountJmp':
                    plain, o, t = self.split_jump(args)
                    r = self.regid(plain[0])
                    v = EV.wrap(self.read(r, 'i') - 1); self.write(r, 'i', v)
                    taken = (v > 0) if at.get('op') == '>' else (v != 0)
                    if taken: pc = self.jump(o, t if t is not None else self.label_time(o))
                    else: pc += 1
                    continue
                if name == 'CondJmp':
                    plain, o, t = self.split_jump(args)
                    if self.compare(at['op'], self.val(plain[0]), self.val(plain[1]), ty): pc = self.jump(o, t if t is not None else self.label_time(o))
                    else: pc += 1
                    continue
                if name == 'DedicatedCmp':
                    self.cmp = (self.val(args[0]), self.val(args[1]), ty); pc += 1; continue
                if name == 'DedicatedCmpJmp':
                    _, o, t = self.split_jump(args)
                    if self.cmp is None: raise Unjudged('conditional jump without a preceding compare')
                    a, b, cty = self.cmp
                    if self.compare(at['op'], a, b, cty): pc = self.jump(o, t if t is not None else self.label_time(o))
                    else: pc += 1
                    continue
            except EV.Undefined as e:
                raise Unjudged('undefined operation at run time: %s' % e)
            except EV.Unjudged as e:
                raise Unjudged(str(e))
            raise Unjudged('intrinsic kind %s' % name)
        return self

    def label_time(self, off):
        k = self.by_off[off]
        return self.ins[k]['time'] if k < len(self.ins) else (self.ins[-1]['time'] if self.ins else 0)


def run(instrs, mapfile_text, state_regs, difficulty):
    """state_regs: {"1000": {"i": 3} | {"f": bits}}.  Returns the finished Machine (log, regs, time, real)."""
    sigs, intr = parse_mapfile(mapfile_text)
    regs = {}
    for k, v in state_regs.items():
        regs[int(k)] = ('i', v['i']) if 'i' in v else ('f', EV.from_bits(v['f']))
    return Machine(instrs, sigs, intr, regs, difficulty).run()
