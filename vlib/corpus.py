"""Binary corpora: bundled files + binaries compiled from generated sources."""
import glob, os, re
from . import formats

BUNDLED = sorted(glob.glob('/repo/tests/integration/bits-2-bits/*') + glob.glob('/repo/tests/integration/resources/*.anm'))

def bundled():
    out = []
    for p in BUNDLED:
        name = os.path.basename(p)
        game = re.match(r'(th\d+)', name).group(1)
        ext = name.rsplit('.', 1)[1]
        tool = {'anm': 'anm', 'std': 'std', 'msg': 'msg'}[ext]
        out.append({'name': name, 'tool': tool, 'game': game, 'msg_mode': None, 'data': open(p, 'rb').read(), 'origin': 'bundled', 'path': p})
    return out

def compile_generated(ctx, tables, n, kinds=None, weights=None, want_text=False, **kw):
    """Generate sources until n of them compiled (bounded attempts); returns list of corpus entries."""
    out = []
    attempts = 0
    while len(out) < n and attempts < n * 4:
        attempts += 1
        gf = formats.gen_any(ctx.rng, tables, kinds=kinds, weights=weights, **kw)
        src = ctx.write('gen.txt', gf.text)
        outp = os.path.join(ctx.dir, 'gen.bin')
        if os.path.exists(outp): os.unlink(outp)
        resp = ctx.cli(gf.compile_job(src, outp))
        ctx.count('corpus_compile_attempts')
        if resp.get('ok') and os.path.exists(outp):
            e = {'name': 'gen%d.%s' % (len(out), gf.kind), 'tool': gf.tool, 'game': gf.game, 'msg_mode': gf.msg_mode, 'data': open(outp, 'rb').read(),
                 'origin': 'compiled', 'kind': gf.kind, 'compile_diag': resp.get('diag', ''), 'used': gf.used, 'shape': gf.shape}
            if want_text: e['text'] = gf.text
            out.append(e)
        else:
            ctx.count('corpus_compile_rejected')
            if 'panic' in resp: ctx.count('corpus_compile_panics')
            else:
                from . import core
                ctx.seen('corpus_reject_reasons', '%s:%s' % (gf.kind, core.norm_msg(core.headline(resp.get('diag', '')))[:70]))
    return out
