"""Shared judging for the crash monitors C04 (text inputs) and C16 (binary inputs)."""
import os
from . import core

MEM_BASE = 64 << 20

def judge_exec(ctx, prop, job, resp, input_size, what, replay, require_file_named=None, input_id=None, memory_clause=True):
    """Returns 'ok' | 'err' | 'violation' | 'inconclusive'."""
    if 'inconclusive' in resp:
        ctx.inconcl(resp['inconclusive']); return 'inconclusive'
    entry = '%s-%s' % (job.get('tool'), job.get('cmd'))
    if 'abort' in resp:
        kind = resp['abort']
        ctx.violation('abort:%s:%s' % (kind, entry) + (':' + input_id if input_id else ''), '%s while running %s: %s' % (kind, what, (resp.get('stderr') or '')[-300:]), replay)
        return 'violation'
    if 'panic' in resp:
        p = resp['panic']
        ctx.seen('panic_sites', p.get('site'))
        ctx.violation(core.panic_sig(p), 'panic at %s: %s' % (p.get('loc'), (p.get('msg') or '')[:300]), dict(replay, frames=p.get('frames')))
        return 'violation'
    limit = MEM_BASE + 4096 * input_size
    if memory_clause and resp.get('peak', 0) > limit:
        ctx.violation('memory:%s' % entry + (':' + input_id if input_id else ''), 'peak allocation %d bytes for a %d byte input (limit %d), largest single request %d' % (resp['peak'], input_size, limit, resp.get('biggest', 0)), replay)
        return 'violation'
    ctx.counters['max_peak_bytes'] = max(ctx.counters.get('max_peak_bytes', 0), resp.get('peak', 0))
    ctx.counters['max_ms'] = max(ctx.counters.get('max_ms', 0), int(resp.get('ms', 0)))
    ok = resp.get('ok')
    diag = resp.get('diag', '')
    has_err = core.has_error_diag(diag)
    if ok and has_err:
        ctx.violation('exit-mismatch:Ok-with-error:' + core.norm_msg(core.headline(diag)), 'succeeded although an error diagnostic was printed: ' + diag[:300], replay)
        return 'violation'
    if not ok and not has_err:
        ctx.violation('exit-mismatch:Err-without-error:' + core.norm_msg(core.headline(diag) or '<no diagnostics>'), 'failed without printing an error diagnostic: ' + diag[:300], replay)
        return 'violation'
    if not ok and require_file_named and not any(n in diag for n in ([require_file_named] if isinstance(require_file_named, str) else require_file_named)):
        ctx.violation('err-without-filename:' + core.norm_msg(core.headline(diag)), 'error diagnostic does not name the input file: ' + diag[:300], replay)
        return 'violation'
    for w in core.warnings_of(diag): ctx.seen('warning_kinds', core.norm_msg(w)[:80])
    if not ok: ctx.seen('error_kinds', core.norm_msg(core.headline(diag))[:80])
    return 'ok' if ok else 'err'

def cross_check_cli(ctx, job, resp, profile):
    """Re-execute a job through the real CLI process and compare the verdict-relevant facts."""
    rc, out, err = core.run_vtruth(core.job_argv(job), profile)
    ctx.count('cli_crosschecks')
    if rc is None:
        ctx.count('cli_crosscheck_timeouts'); return
    cls_cli = 'ok' if rc == 0 else ('err' if rc == 1 else 'crash')
    cls_in = 'crash' if ('panic' in resp or 'abort' in resp) else ('ok' if resp.get('ok') else 'err')
    if cls_cli != cls_in:
        ctx.count('cli_crosscheck_disagreements')
        ctx.seen('cli_crosscheck_disagreement_examples', '%s: in-process %s, process rc=%s' % (' '.join(core.job_argv(job)[:2]), cls_in, rc))
    elif core.has_error_diag(err) != core.has_error_diag(resp.get('diag', '')) and cls_in != 'crash':
        ctx.count('cli_crosscheck_diag_disagreements')
