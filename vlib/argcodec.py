"""Shared pipeline for C12 (argument encoding/decoding) and C15 (text survives): declare a signature in a mapfile,
compile one call through the real ANM/MSG pipelines, read the blob with the independent layout parser, decompile, parse
the printed argument list."""
import os, re, struct
from . import core, layout as L, sig as SIG

ANM_HEAD = 'entry { path: "a.png", has_data: false, img_width: 64, img_height: 64, img_format: 3, sprites: {} }\n'

def render_arg(a):
    kind, v = a
    if kind == 'i': return str(v) if v >= 0 else '-%d' % (-v)
    if kind == 'f':
        from .models import eval as E
        x = E.from_bits(v)
        return E.fmt_f32(x) if x >= 0 and not (x == 0 and v >> 31) else '-' + E.fmt_f32(-x)
    if kind == 's': return quote(v)
    if kind == 'ri': return 'REG[%d]' % v
    if kind == 'rf': return 'REG[%d]' % v
    raise ValueError(a)

def quote(s):
    out = ['"']
    for ch in s:
        if ch == '"': out.append('\\"')
        elif ch == '\\': out.append('\\\\')
        elif ch == '\n': out.append('\\n')
        elif ch == '\r': out.append('\\r')
        elif ch == '\0': out.append('\\0')
        else: out.append(ch)
    out.append('"')
    return ''.join(out)

TOK = re.compile(r'\s*(?:(?P<str>"(?:[^"\\]|\\.)*")|(?P<reg>[$%]?REG\[-?\d+\])|(?P<float>-?\d+\.\d+)|(?P<kw>-?INF|NAN|true|false)|(?P<hex>-?0x[0-9a-fA-F]+)|(?P<bin>-?0b[01]+)|(?P<int>-?\d+)|(?P<pseudo>@\w+=)|(?P<ident>[A-Za-z_][\w.]*)|(?P<punct>[(),]))')

def unquote(s):
    body = s[1:-1]
    out, i = [], 0
    while i < len(body):
        c = body[i]
        if c == '\\' and i + 1 < len(body):
            n = body[i + 1]
            out.append({'n': '\n', 'r': '\r', '0': '\0', '\\': '\\', '"': '"'}.get(n, n)); i += 2
        else:
            out.append(c); i += 1
    return ''.join(out)

def parse_call_args(text, opcode):
    """Arguments of the first `ins_<opcode>(...)` call in a decompiled text.  Returns list of (kind, value) or None."""
    m = re.search(r'\bins_%d\(' % opcode, text)
    if not m: return None
    pos = m.end()
    args, depth = [], 1
    cur_neg = False
    while pos < len(text):
        t = TOK.match(text, pos)
        if not t: return None
        pos = t.end()
        if t.group('punct'):
            p = t.group('punct')
            if p == '(': depth += 1
            elif p == ')':
                depth -= 1
                if depth == 0: return args
            continue
        if t.group('str') is not None: args.append(('s', unquote(t.group('str'))))
        elif t.group('reg'):
            g = t.group('reg'); rid = int(re.search(r'-?\d+', g).group(0))
            args.append(('r', rid, g[0] if g[0] in '$%' else ''))
        elif t.group('float'): args.append(('f', struct.unpack('<I', struct.pack('<f', float(t.group('float'))))[0]))
        elif t.group('kw'):
            k = t.group('kw')
            if k == 'true': args.append(('i', 1))
            elif k == 'false': args.append(('i', 0))
            elif k == 'NAN': args.append(('f', 0x7fc00000))
            elif k == 'INF': args.append(('f', 0x7f800000))
            elif k == '-INF': args.append(('f', 0xff800000))
        elif t.group('hex'): args.append(('i', int(t.group('hex'), 16)))
        elif t.group('bin'): args.append(('i', int(t.group('bin'), 2)))
        elif t.group('int'): args.append(('i', int(t.group('int'))))
        elif t.group('pseudo'): args.append(('pseudo', t.group('pseudo')))
        elif t.group('ident'): args.append(('ident', t.group('ident')))
    return None

def find_instr(data, tool, game, opcode):
    """The first instruction with this opcode in a compiled file (independent layout parser)."""
    if tool == 'anm':
        for e in L.parse_anm(data, game):
            for s in e['scripts']:
                for i in s['instrs']:
                    if i.opcode == opcode: return i
    elif tool == 'msg':
        m = L.parse_msg(data, game)
        for off, ins in sorted(m['scripts'].items()):
            for i in ins:
                if i.opcode == opcode: return i
    elif tool == 'std':
        for i in L.parse_std(data, game)['script']:
            if i.opcode == opcode: return i
    elif tool == 'ecl':
        for s in L.parse_ecl06(data, game)['subs']:
            for i in s['instrs']:
                if i.opcode == opcode: return i
    return None

def skeleton(tool, game, body):
    if tool == 'anm': return ANM_HEAD + 'script s {\n%s\n}\n' % body
    if tool == 'msg': return 'meta { table: { 0: {script: "s"} } }\nscript s {\n%s\n}\n' % body
    if tool == 'std':
        from . import formats
        if formats.game_ge(game, 'th095'): return 'meta { unknown: 0, anm_path: "a.anm", objects: {}, instances: [] }\nscript main {\n%s\n}\n' % body
        return 'meta { unknown: 0, stage_name: "x", bgm: [{path:"a",name:"b"},{path:"a",name:"b"},{path:"a",name:"b"},{path:"a",name:"b"}], objects: {}, instances: [] }\nscript main {\n%s\n}\n' % body
    if tool == 'ecl': return 'script timeline0 {}\nvoid sub0() {\n%s\n}\n' % body
    raise ValueError(tool)

MAGIC = {'anm': '!anmmap', 'msg': '!msgmap', 'std': '!stdmap', 'ecl': '!eclmap'}

def roundtrip_call(ctx, tool, game, opcode, sigtext, args, pre_calls=(), msg_mode=None, user_map=True):
    """Compile `ins_<opcode>(args)` (after optional preceding calls), then decompile.  Returns dict of observations."""
    lines = ['%s' % c for c in pre_calls] + ['ins_%d(%s);' % (opcode, ', '.join(render_arg(a) for a in args))]
    text = skeleton(tool, game, '\n'.join(lines))
    src = ctx.write('ac.txt', text)
    maps = []
    if user_map:
        maps = [ctx.write('ac.map', '%s\n!ins_signatures\n%d %s\n' % (MAGIC[tool], opcode, sigtext))]
    out = os.path.join(ctx.dir, 'ac.bin'); dec = os.path.join(ctx.dir, 'ac.dec')
    for p in (out, dec):
        if os.path.exists(p): os.unlink(p)
    cj = {'tool': tool, 'cmd': 'compile', 'game': game, 'in': src, 'out': out, 'maps': maps}
    if msg_mode: cj['msg_mode'] = msg_mode
    c = ctx.cli(cj)
    obs = {'text': text, 'compile': c, 'sig': sigtext}
    if 'panic' in c or 'abort' in c or not c.get('ok'): return obs
    data = ctx.read(out)
    obs['data'] = data
    try:
        ins = find_instr(data, tool, game, opcode)
    except L.LayoutError as e:
        obs['layout_error'] = str(e); return obs
    obs['instr'] = ins
    dj = {'tool': tool, 'cmd': 'decompile', 'game': game, 'in': out, 'out': dec, 'maps': maps, 'width': 100000}
    if msg_mode: dj['msg_mode'] = msg_mode
    d = ctx.cli(dj)
    obs['decompile'] = d
    if d.get('ok'):
        obs['dec_text'] = (ctx.read(dec) or b'').decode('utf-8', 'replace')
        obs['dec_args'] = parse_call_args(obs['dec_text'], opcode)
        # re-encode the decompiled text
        out2 = os.path.join(ctx.dir, 'ac2.bin')
        if os.path.exists(out2): os.unlink(out2)
        c2 = ctx.cli(dict(cj, **{'in': dec, 'out': out2}))
        obs['recompile'] = c2
        if c2.get('ok'):
            try: obs['instr2'] = find_instr(ctx.read(out2), tool, game, opcode)
            except L.LayoutError as e: obs['layout_error2'] = str(e)
    return obs


def parse_all_calls(text, opcode):
    """Argument lists of every `ins_<opcode>(...)` call, in order."""
    out = []
    pos = 0
    pat = re.compile(r'\bins_%d\(' % opcode)
    while True:
        m = pat.search(text, pos)
        if not m: return out
        args = parse_call_args(text[m.start():], opcode)
        out.append(args)
        pos = m.end()


def unambiguous_repertoire():
    """Characters c with a Shift-JIS encoding on which python's shift_jis and cp932 codecs agree and that round-trip (no NUL)."""
    chars = {}
    def ok(c):
        try:
            a = c.encode('shift_jis'); b = c.encode('cp932')
        except UnicodeEncodeError:
            return None
        if a != b or a.decode('shift_jis') != c or b.decode('cp932') != c: return None
        return a
    for cp in list(range(0x20, 0x7f)) + list(range(0xff61, 0xffa0)) + list(range(0x3041, 0x3094)) + list(range(0x30a1, 0x30f7)) + list(range(0x4e00, 0x9fa0)) + [0x3000, 0x3001, 0x3002, 0x300c, 0x300d, 0x30fb, 0x30fc]:
        c = chr(cp)
        # (0x5C / 0x7E: yen / overline only in JIS X 0201 proper; under the WHATWG Shift_JIS that truth uses - encoding_rs - they are
        #  backslash and tilde in both directions, so both belong to the repertoire; paths like data\\eff01.anm are everyday input)
        e = ok(c)
        if e: chars[c] = e
    return chars
