"""Driver core: build, worker processes, watchdogs, fan-out, evidence, known findings.

Everything that *decides* a property (generators, models, oracles) is python code in vlib/;
the rust `vworker` only executes the real truth code and reports observations.
"""
import hashlib, json, os, random, resource, select, shutil, signal, subprocess, sys, tempfile, time, traceback
import multiprocessing as mp

VERIF = os.path.dirname(os.path.dirname(os.path.abspath(__file__)))
HARNESS = os.path.join(VERIF, 'harness')
# The registered checks always run with the defaults below (/repo's working tree, /verif/target, evidence under /verif).
# For development only (evaluating a seeded change in a scratch worktree without touching /repo, background sweeps on a
# snapshot) the three locations can be redirected; nothing written in that mode is evidence.
REPO = os.environ.get('VERIF_REPO', '/repo')
TARGET = os.environ.get('VERIF_TARGET', os.path.join(VERIF, 'target'))
OUT = os.environ.get('VERIF_OUT', VERIF)
NPROC = int(os.environ.get('VERIF_JOBS', '16'))

CHILD_ENV = dict(os.environ)
CHILD_ENV['RUST_BACKTRACE'] = '0'
CHILD_ENV.pop('TRUTH_MAP_PATH', None)
CHILD_ENV.pop('_TRUTH_DEBUG__TEST', None)

class HarnessError(Exception):
    pass

# ----------------------------------------------------------------------------- build

def build(profile='dev', quiet=True):
    """(Re)build the harness against /repo's *current working tree* with hooks on."""
    env = dict(os.environ)
    env['RUSTFLAGS'] = '--cfg truth_verif' + (' ' + os.environ['VERIF_RUSTFLAGS_EXTRA'] if os.environ.get('VERIF_RUSTFLAGS_EXTRA') else '')   # (extra flags: development only, e.g. -Cinstrument-coverage)
    env['CARGO_NET_OFFLINE'] = 'true'
    env['CARGO_TARGET_DIR'] = TARGET
    cmd = ['cargo'] + os.environ.get('VERIF_CARGO_TOOLCHAIN', '').split() + ['build', '--offline', '--bins']
    if profile == 'release':
        cmd.append('--release')
    t0 = time.time()
    hdir = HARNESS
    if REPO != '/repo':
        hdir = os.path.join(TARGET, '_harness')
        os.makedirs(hdir, exist_ok=True)
        subprocess.run(['rsync', '-a', '--delete', '--exclude', 'target', HARNESS + '/', hdir + '/'], check=True)
        with open(os.path.join(hdir, 'Cargo.toml')) as f: toml = f.read()
        with open(os.path.join(hdir, 'Cargo.toml'), 'w') as f: f.write(toml.replace('path = "/repo"', 'path = "%s"' % REPO))
    p = subprocess.run(cmd, cwd=hdir, env=env, stdout=subprocess.PIPE, stderr=subprocess.STDOUT, text=True)
    if p.returncode != 0:
        sys.stdout.write(p.stdout[-6000:])
        raise HarnessError('harness build failed (does /repo still compile?)')
    return time.time() - t0

def bin_path(name, profile='dev'):
    return os.path.join(TARGET, 'debug' if profile == 'dev' else 'release', name)

# ----------------------------------------------------------------------------- rng

class Rng(random.Random):
    """Seeded RNG with a few helpers.  Every random choice in a check derives from VERIF_SEED."""
    def chance(self, p): return self.random() < p
    def pick(self, xs): return xs[self.randrange(len(xs))]
    def wpick(self, pairs):
        tot = sum(w for _, w in pairs)
        r = self.random() * tot
        for x, w in pairs:
            r -= w
            if r < 0: return x
        return pairs[-1][0]

def subseed(seed, *parts):
    h = hashlib.sha256(('%d|' % seed + '|'.join(str(p) for p in parts)).encode()).digest()
    return int.from_bytes(h[:8], 'little')

# ----------------------------------------------------------------------------- worker

def _limit_child():
    resource.setrlimit(resource.RLIMIT_AS, (8 << 30, 8 << 30))
    resource.setrlimit(resource.RLIMIT_CORE, (0, 0))
    os.setsid()

def _cpu_seconds(pid):
    try:
        with open('/proc/%d/stat' % pid) as f:
            parts = f.read().rsplit(') ', 1)[1].split()
        return (int(parts[11]) + int(parts[12])) / os.sysconf('SC_CLK_TCK')
    except Exception:
        return None

class Worker:
    """One vworker child.  call() = record call, send, wait for the return under the CPU watchdog."""
    CPU_LIMIT = 20.0      # CPU-seconds for one request: "does not terminate in bounded time"
    WALL_LIMIT = 300.0    # wall clock: only ever yields *inconclusive*

    def __init__(self, profile='dev'):
        self.profile = profile
        self.proc = None
        self.errf = None
        self.restarts = 0
        self.start()

    def start(self):
        self.errf = tempfile.TemporaryFile()
        self.proc = subprocess.Popen([bin_path('vworker', self.profile)], stdin=subprocess.PIPE, stdout=subprocess.PIPE,
                                     stderr=self.errf, env=CHILD_ENV, preexec_fn=_limit_child, bufsize=0)
        self.buf = b''

    def close(self):
        if self.proc:
            try:
                self.proc.stdin.close()
            except Exception:
                pass
            try:
                self.proc.wait(timeout=2)
            except Exception:
                self.kill()
            self.proc = None

    def kill(self):
        try:
            os.killpg(self.proc.pid, signal.SIGKILL)
        except Exception:
            pass
        try:
            self.proc.wait(timeout=5)
        except Exception:
            pass

    def _stderr_tail(self):
        try:
            self.errf.seek(0)
            return self.errf.read()[-2000:].decode('utf-8', 'replace')
        except Exception:
            return ''

    def call(self, req, cpu_limit=None):
        cpu_limit = cpu_limit or self.CPU_LIMIT
        if self.proc is None or self.proc.poll() is not None:
            self.start()
        data = (json.dumps(req) + '\n').encode()
        cpu0 = _cpu_seconds(self.proc.pid) or 0.0
        t0 = time.time()
        try:
            self.proc.stdin.write(data)
            self.proc.stdin.flush()
        except BrokenPipeError:
            pass
        fd = self.proc.stdout.fileno()
        while True:
            nl = self.buf.find(b'\n')
            if nl >= 0:
                line, self.buf = self.buf[:nl], self.buf[nl + 1:]
                try:
                    resp = json.loads(line)
                except Exception as e:
                    raise HarnessError('bad worker response: %r' % line[:200])
                if 'harness_error' in resp:
                    raise HarnessError('worker: %s (req %s)' % (resp['harness_error'], json.dumps(req)[:300]))
                return resp
            r, _, _ = select.select([fd], [], [], 0.25)
            if r:
                chunk = os.read(fd, 1 << 16)
                if chunk:
                    self.buf += chunk
                    continue
                # EOF: the worker died while executing this request
                self.proc.wait()
                rc = self.proc.returncode
                tail = self._stderr_tail()
                self.restarts += 1
                self.start()
                kind = 'signal %d' % -rc if rc < 0 else 'exit %d' % rc
                if 'overflowed its stack' in tail: what = 'stack-overflow'
                elif 'memory allocation of' in tail: what = 'alloc-failure'
                else: what = kind
                return {'abort': what, 'rc': rc, 'stderr': tail}
            cpu = _cpu_seconds(self.proc.pid)
            if cpu is not None and cpu - cpu0 > cpu_limit:
                self.kill(); self.restarts += 1; self.start()
                return {'abort': 'cpu-timeout', 'cpu_s': cpu - cpu0}
            if time.time() - t0 > self.WALL_LIMIT:
                self.kill(); self.restarts += 1; self.start()
                return {'inconclusive': 'wall-clock watchdog'}

def run_vtruth(args, profile='dev', cwd=None, timeout=120, limit=True):
    """Run the real CLI as a process.  Returns (returncode, stdout bytes, stderr text)."""
    try:
        # (without preexec_fn python can vfork/posix_spawn, which is several times cheaper: used by the process-heavy C19)
        p = subprocess.run([bin_path('vtruth', profile)] + list(args), env=CHILD_ENV, cwd=cwd, stdout=subprocess.PIPE,
                           stderr=subprocess.PIPE, timeout=timeout, preexec_fn=_limit_child if limit else None)
        return p.returncode, p.stdout, p.stderr.decode('utf-8', 'replace')
    except subprocess.TimeoutExpired:
        return None, b'', 'TIMEOUT'

# ----------------------------------------------------------------------------- cli job <-> argv

TOOLBIN = {'anm': 'truanm', 'std': 'trustd', 'msg': 'trumsg', 'ecl': 'truecl'}

def job_argv(job):
    """The argv of the real CLI equivalent to an in-process `cli` job."""
    a = [TOOLBIN[job['tool']], job['cmd'], job['in'], '-g', job['game']]
    if job.get('out'): a += ['-o', job['out']]
    for m in job.get('maps', []): a += ['-m', m]
    if job.get('no_builtin'): a.append('--no-builtin-mapfiles')
    if job['cmd'] == 'compile':
        for i in job.get('images', []): a += ['-i', i]
        if job.get('debug_info'): a += ['--output-debug-info', job['debug_info']]
    if job['cmd'] == 'decompile':
        d = job.get('dopts', {})
        for k, flag in [('blocks', '--no-blocks'), ('intrinsics', '--no-intrinsics'), ('arguments', '--no-arguments'),
                        ('diff_switches', '--no-diff-switches'), ('calls', '--no-calls')]:
            if d.get(k) is False: a.append(flag)
        if d.get('show_instr_offsets'): a.append('--show-instr-offsets')
        if 'width' in job: a += ['--max-columns', str(job['width'])]
    if job.get('msg_mode') == 'mission': a.append('--mission')
    if job.get('msg_mode') == 'ending': a.append('--ending')
    return a

import re
ERR_HEADER = re.compile(r'^(error|bug)(\[[^\]]*\])?:', re.M)
WARN_HEADER = re.compile(r'^warning(\[[^\]]*\])?:', re.M)

def has_error_diag(text): return bool(ERR_HEADER.search(text or ''))
def warnings_of(text): return [l for l in (text or '').splitlines() if WARN_HEADER.match(l)]
def headline(text):
    for l in (text or '').splitlines():
        if ERR_HEADER.match(l) or WARN_HEADER.match(l): return l
    return (text or '').strip().splitlines()[0] if (text or '').strip() else ''

def norm_msg(s):
    """Normalise a message for signatures: digits and quoted payloads collapse."""
    s = re.sub(r'/dev/shm/tverif-[^/ ]*/', '', s)
    s = re.sub(r"'[^']*'", "'_'", s)
    s = re.sub(r'"[^"]*"', '"_"', s)
    s = re.sub(r'`[^`]*`', '`_`', s)
    s = re.sub(r'-?\d+(\.\d+)?', 'N', s)
    return s.strip()[:160]

def panic_sig(p):
    return 'panic:%s:%s' % (p.get('site', '?'), norm_msg(p.get('msg', '').splitlines()[0] if p.get('msg') else ''))

# ----------------------------------------------------------------------------- shard context

class Ctx:
    """Per-shard context handed to property code."""
    def __init__(self, prop, tier, seed, shard, nshards, profile):
        self.prop, self.tier, self.seed, self.shard, self.nshards, self.profile = prop, tier, seed, shard, nshards, profile
        self.rng = Rng(subseed(seed, prop, shard))
        self.dir = tempfile.mkdtemp(prefix='tverif-%s-%d-' % (prop, shard), dir='/dev/shm' if os.path.isdir('/dev/shm') else None)
        self.worker = Worker(profile)
        self.evaluations = 0
        self.fps = set()
        self.samples = []
        self.counters = {}
        self.violations = []   # dicts: sig, what, replay
        self.inconclusive = 0
        self.incon_reasons = {}
        self.t0 = time.time()
        self.nfile = 0

    # --- bookkeeping
    def count(self, key, n=1): self.counters[key] = self.counters.get(key, 0) + n
    def seen(self, key, item):
        s = self.counters.setdefault(key, set())
        if isinstance(s, set) and len(s) < 5000: s.add(item)
    def fp(self, *parts):
        self.fps.add(hashlib.md5(repr(parts).encode()).hexdigest()[:12])
    def sample(self, x, cap=4):
        if len(self.samples) < cap: self.samples.append(x)
    def inconcl(self, reason):
        self.inconclusive += 1
        self.incon_reasons[reason] = self.incon_reasons.get(reason, 0) + 1
    def violation(self, sig, what, replay):
        size = len(json.dumps(replay, default=str))
        for v in self.violations:
            if v['sig'] == sig:
                v['count'] += 1
                if size < v['size']:
                    v.update(what=what, replay=replay, size=size)
                return
        self.violations.append({'sig': sig, 'what': what, 'replay': replay, 'size': size, 'count': 1})

    # --- files
    def path(self, name=None):
        self.nfile += 1
        return os.path.join(self.dir, name or ('f%d' % self.nfile))
    def write(self, name, data):
        p = os.path.join(self.dir, name)
        with open(p, 'wb') as f:
            f.write(data if isinstance(data, bytes) else data.encode('utf-8'))
        return p
    def read(self, p):
        try:
            with open(p, 'rb') as f: return f.read()
        except FileNotFoundError:
            return None

    # --- execution
    def call(self, req, **kw):
        return self.worker.call(req, **kw)
    def cli(self, job, **kw):
        req = dict(job); req['op'] = 'cli'
        return self.worker.call(req, **kw)

    def finish(self):
        self.worker.close()
        shutil.rmtree(self.dir, ignore_errors=True)
        counters = {}
        for k, v in self.counters.items():
            counters[k] = sorted(v, key=str) if isinstance(v, set) else v
        return {'evaluations': self.evaluations, 'fps': sorted(self.fps), 'samples': self.samples, 'counters': counters,
                'violations': self.violations, 'inconclusive': self.inconclusive, 'incon_reasons': self.incon_reasons,
                'restarts': self.worker.restarts, 'wall': time.time() - self.t0}

def _shard_main(args):
    modname, prop, tier, seed, shard, nshards, profile = args
    try:
        mod = __import__('vlib.props.' + modname, fromlist=['x'])
        ctx = Ctx(prop, tier, seed, shard, nshards, profile)
        try:
            mod.run_shard(ctx)
        finally:
            res = ctx.finish()
        return res
    except HarnessError as e:
        return {'harness_error': str(e)}
    except Exception:
        return {'harness_error': traceback.format_exc()}

# ----------------------------------------------------------------------------- known findings

def load_known():
    p = os.path.join(VERIF, 'known_findings.json')
    if not os.path.exists(p): return {'known': [], 'fixed': []}
    with open(p) as f: return json.load(f)

# ----------------------------------------------------------------------------- top level

def merge_counters(a, b):
    for k, v in b.items():
        if isinstance(v, list):
            cur = a.setdefault(k, [])
            for x in v:
                if x not in cur and len(cur) < 400: cur.append(x)
        elif isinstance(v, (int, float)):
            a[k] = a.get(k, 0) + v
        else:
            a.setdefault(k, v)

def run_check(prop, modname, tier, seed, profiles=('dev',), meta=None):
    """Build, fan out, merge, write evidence, print verdict lines; returns exit code."""
    meta = meta or {}
    t0 = time.time()
    try:
        for prof in profiles:
            build(prof)
    except HarnessError as e:
        print('BROKEN: %s' % e)
        return 2
    jobs = []
    per = max(1, NPROC // len(profiles))
    for prof in profiles:
        for sh in range(per):
            jobs.append((modname, prop, tier, seed, sh, per, prof))
    with mp.Pool(len(jobs)) as pool:
        results = pool.map(_shard_main, jobs)
    herr = [r['harness_error'] for r in results if 'harness_error' in r]
    if herr:
        print('BROKEN: harness error in %d shard(s):\n%s' % (len(herr), herr[0][-3000:]))
        return 2
    evaluations = sum(r['evaluations'] for r in results)
    fps = set()
    for r in results: fps.update(r['fps'])
    samples = []
    for r in results:
        for s in r['samples']:
            if len(samples) < 6: samples.append(s)
    counters = {}
    for r in results: merge_counters(counters, r['counters'])
    incon = sum(r['inconclusive'] for r in results)
    incon_reasons = {}
    for r in results: merge_counters(incon_reasons, r['incon_reasons'])
    viols = {}
    for (job, r) in zip(jobs, results):
        for v in r['violations']:
            v['replay'].setdefault('profile', job[6])
            cur = viols.get(v['sig'])
            if cur is None:
                viols[v['sig']] = v
            else:
                cur['count'] += v['count']
                if v['size'] < cur['size']:
                    n = cur['count']; viols[v['sig']] = v; v['count'] = n
    known = load_known()
    known_sigs = {k['signature']: k for k in known.get('known', []) if k['property'] == prop}
    new, old = [], []
    for sig, v in sorted(viols.items()):
        (old if sig in known_sigs else new).append(v)
    rdir = os.path.join(OUT, 'replays', prop)
    os.makedirs(rdir, exist_ok=True)
    for v in old:
        print('KNOWN-FINDING: property=%s %s (%s; seen %d times this run)' % (prop, v['sig'], known_sigs[v['sig']].get('what', ''), v['count']))
    for v in new:
        name = hashlib.md5(v['sig'].encode()).hexdigest()[:10] + '.json'
        path = os.path.join(rdir, name)
        rec = dict(v['replay']); rec.update(property=prop, signature=v['sig'], what=v['what'], seed=seed, tier=tier)
        with open(path, 'w') as f: json.dump(rec, f, indent=1, default=str)
        print('VIOLATION property=%s replay=%s' % (prop, path))
        print('  signature: %s\n  what: %s  (x%d)' % (v['sig'], str(v['what'])[:600], v['count']))
    wall = time.time() - t0
    floors = meta.get('floors', {})
    broken = []
    for k, mn in floors.items():
        val = counters.get(k, 0)
        val = len(val) if isinstance(val, list) else val
        if val < mn: broken.append('coverage floor missed: %s = %s < %s' % (k, val, mn))
    if evaluations and incon > 0.10 * (evaluations + incon):
        broken.append('too many inconclusive cases: %d of %d' % (incon, evaluations + incon))
    if len(fps) < 2: broken.append('fewer than 2 distinct non-trivial cases')
    if not samples:
        broken.append('no sample case was recorded')
        samples = [{'note': 'no sample case was recorded by this run'}]      # (keeps the evidence file schema-valid)
    cov = {'evaluations': evaluations, 'distinct_nontrivial': len(fps), 'rule': meta.get('rule', ''), 'samples': samples,
           'inconclusive': incon, 'inconclusive_reasons': incon_reasons, 'observed': counters,
           'worker_restarts': sum(r['restarts'] for r in results), 'profiles': list(profiles),
           'known_findings_seen': [v['sig'] for v in old], 'new_violation_signatures': [v['sig'] for v in new]}
    if meta.get('exhaustive'): cov['exhaustive'] = True
    ev = {'property_id': prop, 'tier': tier, 'seed': seed, 'level': meta.get('level', 'exploration'), 'coverage': cov,
          'assumptions': meta.get('assumptions', []), 'wall_s': round(wall, 2), 'violations': len(new)}
    os.makedirs(os.path.join(OUT, 'evidence'), exist_ok=True)
    tmp = os.path.join(OUT, 'evidence', prop + '.json.tmp')
    with open(tmp, 'w') as f: json.dump(ev, f, indent=1, default=str)
    os.replace(tmp, os.path.join(OUT, 'evidence', prop + '.json'))
    print('%s tier=%s seed=%d: %d executions judged, %d distinct non-trivial, %d inconclusive, %d known, %d new violations, %.1fs'
          % (prop, tier, seed, evaluations, len(fps), incon, len(old), len(new), wall))
    if new:
        # a witnessed violation stands on its own (it is replayable against the real code); a missed coverage floor only
        # invalidates a "held" verdict - and is often the consequence of the violation itself (the violating cases stop counting)
        for b in broken: print('note: ' + b)
        return 1
    if broken:
        for b in broken: print('BROKEN: ' + b)
        return 2
    return 0
