"""Shared workload for C02 (lowering preserves behaviour) and C05 (scratch registers)."""
import re, struct
from . import testlang as TL
from .gensrc import Env, gen_body, INT, FLOAT

def f32bits(x): return struct.unpack('<I', struct.pack('<f', x))[0]

def tl_env(cfg, feats, rng=None):
    name = (lambda r: TL.NAMES[r]) if cfg.aliases else (lambda r: 'REG[%d]' % r)
    def subset(regs):
        if rng is None: return list(regs)
        k = rng.pick([0, 1, 1, 2, 2, 3, 4])
        return sorted(rng.sample(list(regs), min(k, len(regs))))
    iv = [(name(r), r) for r in subset(TL.INT_REGS)]
    fv = [(name(r), r) for r in subset(TL.FLOAT_REGS)]
    ei = [(name(r), r) for r in TL.EXTRA_INT]
    ef = [(name(r), r) for r in TL.EXTRA_FLOAT]
    cfg.mapfile()  # populates cfg.calls
    env = Env(iv, fv, cfg.calls, feats, extra_int=ei, extra_float=ef)
    if cfg.count_gt: env.count_form = '--%s > 0'
    return env

def feats_for(cfg, rng, base=None):
    f = set(base or ['arith', 'div', 'neg', 'ternary', 'casts', 'math', 'locals', 'assign_ops', 'calls', 'if', 'while', 'dowhile',
                     'times', 'times_clobber', 'loop', 'break', 'block', 'goto', 'condjump', 'countjump', 'timelabels', 'sigils',
                     'logic_cond', 'rawregs', 'diffswitch', 'not', 'bitnot'])
    if cfg.cmp_values: f.add('cmp_value')
    if cfg.logic: f.add('logic_value'); f.add('lognot')
    if cfg.bitwise: f.add('bitwise')
    # randomly drop a few features so that simpler programs appear too
    for x in list(f):
        if rng.chance(0.12): f.discard(x)
    return f

def gen_states(rng, body, n, regs_int, regs_float):
    states = []
    for k in range(n):
        regs = {}
        for r in regs_int:
            if r in body.count_regs: v = rng.pick([0, 1, 2, 3, 5])
            else: v = rng.wpick([(rng.randint(-7, 7), 8), (rng.pick([0, 1, -1]), 2), (rng.pick([2147483647, -2147483648, 65536, -100000]), 0.6 if k > 2 else 0)])
            regs[str(r)] = {'i': v}
        for r in regs_float:
            v = rng.wpick([((rng.random() * 3.4 - 1.7), 6), (rng.pick([0.0, 1.0, -1.0, 0.5, 2.0, -8.0, 7.5]), 3)])
            regs[str(r)] = {'f': f32bits(v)}
        states.append({'regs': regs})
    return states

REG_RE = re.compile(r'REG\[(-?\d+)\]')

def all_regs(): return TL.INT_REGS + TL.EXTRA_INT, TL.FLOAT_REGS + TL.EXTRA_FLOAT

def run_case(ctx, cfg, body, nstates, presimplify, difficulties=(0, 1, 2, 3), want_events=True):
    """Execute one body through the real lowering pipeline + VM differential.  Returns (req, resp)."""
    ri, rf = all_regs()
    states = gen_states(ctx.rng, body, nstates, ri, rf)
    si, sf = cfg.scratch()
    nonscratch = [r for r in ri + rf if r not in si and r not in sf]
    check = sorted(set(nonscratch) | {r for r in body.mentioned})
    req = {'op': 'vm_lower', 'lang': cfg.lang(), 'mapfile': cfg.mapfile(), 'body': body.text, 'states': states,
           'difficulties': list(difficulties), 'check_regs': check, 'presimplify': presimplify, 'max_iter': 3000, 'want_trace': True}
    return req, ctx.call(req)

def check_reg_events(cfg, body, resp, general_use=None, params=()):
    """C05 invariant monitor over the allocator's event log.
    Returns (problems, allocated, hazards); problems = list of (tag, description, regs)."""
    problems, hazards = [], []
    evs = resp.get('reg_events') or []
    si, sf = cfg.scratch() if cfg is not None else ([], [])
    gp = set(general_use) if general_use is not None else set(si) | set(sf)
    mentioned = set(body.mentioned)
    live = {}
    allocated = set()
    for e in evs:
        if e['ev'] == 'pool':
            live = {}
            if set(e['general_use']) != gp:
                problems.append(('general-use-set', 'language reports general-use regs %s, expected %s' % (sorted(e['general_use']), sorted(gp)), []))
            bad = set(e['pool']) & mentioned
            if bad: hazards.append(('pool-contains-mentioned', sorted(bad)))
            bad = set(e['pool']) & set(params)
            if bad: hazards.append(('pool-contains-param', sorted(bad)))
        elif e['ev'] == 'alloc':
            r = e['reg']
            if r not in gp: problems.append(('alloc-not-general', 'allocated %d which is not general-purpose' % r, [r]))
            if r in mentioned: problems.append(('alloc-mentioned', 'allocated %d which the source mentions' % r, [r]))
            if r in params: problems.append(('alloc-param', 'allocated parameter register %d' % r, [r]))
            if r in live.values(): problems.append(('alloc-live', 'allocated %d while it is held by another live local' % r, [r]))
            live[e['def']] = r
            allocated.add(r)
        elif e['ev'] == 'free':
            if e['def'] not in live: problems.append(('free-unmatched', 'free of %s without live alloc' % e['def'], []))
            elif live[e['def']] != e['reg']: problems.append(('free-wrong-reg', 'free of %s gives %d, was allocated %d' % (e['def'], e['reg'], live[e['def']]), [e['reg']]))
            live.pop(e['def'], None)
    if resp.get('new_text'):
        used = {int(m) for m in REG_RE.findall(resp['new_text'])}
        extra = used - mentioned - allocated - set(params)
        if extra: problems.append(('emitted-unknown-reg', 'emitted code uses registers %s that are neither mentioned nor allocated' % sorted(extra), sorted(extra)))
    return problems, allocated, hazards

ALIAS_TO_REG = {v: k for k, v in TL.NAMES.items()}
TOK_RE = re.compile(r'REG\[(-?\d+)\]|[A-Za-z_][A-Za-z_0-9]*')

def mentioned_in_text(text, alias_to_reg=ALIAS_TO_REG):
    """Registers written anywhere in a source text (aliases or REG[n]) - recomputed from the text itself."""
    out = set()
    for m in TOK_RE.finditer(text):
        if m.group(1) is not None: out.add(int(m.group(1)))
        elif m.group(0) in alias_to_reg: out.add(alias_to_reg[m.group(0)])
    return out

def reconcile_mentions(ctx, body, alias_to_reg=ALIAS_TO_REG):
    """The text is what truth sees: ground truth := registers found in the text (generator bookkeeping is only used for contexts)."""
    t = mentioned_in_text(body.text, alias_to_reg)
    if t != set(body.mentioned):
        ctx.count('generator_bookkeeping_corrected_from_text')
        body.mentioned = set(t)

def minimise_lines(text, still_fails, max_steps=150):
    """Line-level delta debugging: drop lines while `still_fails(candidate_text)` holds."""
    lines = text.split('\n')
    steps = 0
    changed = True
    while changed and steps < max_steps:
        changed = False
        i = 1
        while i < len(lines) - 1 and steps < max_steps:
            cand = lines[:i] + lines[i + 1:]
            steps += 1
            if still_fails('\n'.join(cand)):
                lines = cand; changed = True
            else:
                i += 1
    return '\n'.join(lines)

KEYWORDS = ('if', 'unless', 'else', 'while', 'do', 'times', 'loop', 'break', 'goto', 'int', 'float', 'sin', 'cos', 'sqrt', '_S', '_f')
def shape_of(text, limit=80):
    """Coarse, spelling-independent shape of a (minimised) body: keywords and operators only."""
    toks = re.findall(r'[A-Za-z_][A-Za-z_0-9]*|[-+*/%<>=!&|^~?:@]+|\d+\.\d+|\d+|[{}]', text)
    out = []
    for t in toks:
        if re.match(r'\d+\.\d+$', t): out.append('F')
        elif re.match(r'\d+$', t): out.append('N')
        elif t in KEYWORDS: out.append(t)
        elif re.match(r'[A-Za-z_]', t): out.append('v')
        else: out.append(t)
    s = ' '.join(out)
    import hashlib
    return s if len(s) <= limit else s[:limit - 20] + '#' + hashlib.md5(s.encode()).hexdigest()[:6]


# ------------------------------------------------------------------------------------------ directed workload
MENTION_CONTEXTS = ['plain', 'diffswitch', 'diffswitch-nested', 'diffswitch-nested-deep', 'diffswitch-in-call', 'diffswitch-in-binop', 'ternary-branch', 'if-cond', 'while-cond',
                    'assign-op', 'unary', 'cast', 'call-arg', 'nested-block', 'times-count', 'diffswitch-in-cond', 'diffswitch-lhs-of-binop-with-dest',
                    'diffswitch-dead-under-label']

def gen_single_mention(rng, int_regs, float_regs, other_int, other_float, name, call_int='call_S', call_float='call_f', has_cast=True, ctxs=None, sentinel='ins_101();'):
    """A body in which one scratch-candidate register (the victim) is mentioned exactly once, in a chosen syntactic context, while
    the rest of the body creates register pressure (temporaries and locals of the victim's type).
    int_regs/float_regs: scratch candidates; other_*: registers that are never scratch.  Returns a gensrc.Body (ground truth attached)."""
    from .gensrc import Body, INT, FLOAT
    b = Body()
    fl = rng.chance(0.4) and float_regs and other_float
    cands = float_regs if fl else int_regs
    others = other_float if fl else other_int
    if not cands or len(others) < 2: return None
    V = rng.pick(cands); D, P = others[0], others[1]
    v, d, p = name(V), name(D), name(P)
    lit = (lambda: repr(float(rng.randint(1, 9)) + 0.5)) if fl else (lambda: str(rng.randint(1, 9)))
    ctx = rng.pick(ctxs or MENTION_CONTEXTS)
    call = call_float if fl else call_int
    cmpv = lit()
    if ctx == 'plain': m = '%s = %s + %s;' % (d, v, lit())
    elif ctx == 'diffswitch': m = '%s = (%s:%s:%s:%s);' % (d, v, lit(), lit(), lit())
    elif ctx == 'diffswitch-nested': m = '%s = ((%s:%s:%s:%s):%s:%s:%s);' % (d, v, lit(), lit(), lit(), lit(), lit(), lit())
    elif ctx == 'diffswitch-nested-deep': m = '%s = (%s:(%s:(%s:%s:%s:%s)::):%s:%s);' % (d, lit(), lit(), v, lit(), lit(), lit(), lit(), lit())
    elif ctx == 'diffswitch-dead-under-label': m = '{"0"}: %s = (%s + %s : %s + %s : %s : %s);' % (d, p, lit(), v, lit(), lit(), lit())      # the (compound) case that mentions the victim is for a difficulty the label excludes
    elif ctx == 'diffswitch-in-call': m = '%s((%s:%s:%s:%s));' % (call, v, lit(), lit(), lit())
    elif ctx == 'diffswitch-in-binop': m = '%s = (%s * %s) + (%s:%s:%s:%s);' % (d, p, lit(), lit(), v, lit(), lit())
    elif ctx == 'diffswitch-lhs-of-binop-with-dest': m = '%s = (%s:%s:%s:%s) - (%s * %s);' % (d, d, v, lit(), lit(), p, lit())
    elif ctx == 'ternary-branch': m = '%s = (%s == %s) ? %s : %s;' % (d, p, cmpv, v, lit())
    elif ctx == 'if-cond': m = 'if (%s == %s) {\n%s = %s;\n}' % (v, cmpv, d, lit())
    elif ctx == 'diffswitch-in-cond': m = 'if (%s == (%s:%s:%s:%s)) {\n%s = %s;\n}' % (p, lit(), v, lit(), lit(), d, lit())
    elif ctx == 'while-cond': m = 'while (%s == %s + %s) {\n%s = %s;\nbreak;\n}' % (v, d, lit(), d, lit())
    elif ctx == 'assign-op': m = '%s %s %s;' % (d, rng.pick(['+=', '-=', '*=']), v)
    elif ctx == 'unary': m = '%s = -%s;' % (d, v)
    elif ctx == 'cast':
        if not has_cast or not other_float or not other_int: m = '%s = %s;' % (d, v)
        elif fl: m = '%s = _S(%s);' % (name(other_int[0]), v)
        else: m = '%s = _f(%s);' % (name(other_float[0]), v)
    elif ctx == 'call-arg': m = '%s(%s);' % (call, v)
    elif ctx == 'nested-block': m = '{\n{\n{\n%s = %s;\n}\n}\n}' % (d, v)
    else:  # times-count
        if fl: m = '%s = %s;' % (d, v)
        else: m = 'times(%s) {\n%s = %s;\n}' % (v, d, lit())
    # pressure: nested arithmetic that needs temporaries + simultaneously live locals of the same type
    kind = 'float' if fl else 'int'
    depth = rng.randint(1, 4)
    e = '(%s * %s)' % (p, lit())
    for _ in range(depth): e = '(%s * %s) + (%s + %s)' % (p, lit(), e, '(%s * %s)' % (d, lit()))
    press = ['%s = %s;' % (d, e)]
    nloc = rng.randint(0, 3)
    names = []
    for i in range(nloc):
        nm = 'loc%d' % i; names.append(nm)
        press.append('%s %s = %s + %s;' % (kind, nm, names[i - 1] if i else p, lit()))
    if names: press.append('%s = %s;' % (d, ' + '.join(names)))
    parts = [m] + press
    if rng.chance(0.5): parts = press + [m]
    b.text = '{\n' + '\n'.join(parts) + '\n' + sentinel + '\n}'
    b.mentioned = {V, D, P} | ({other_int[0]} if ctx == 'cast' and fl and has_cast else set()) | ({other_float[0]} if ctx == 'cast' and not fl and has_cast and other_float else set())
    b.mention_ctx = {V: {ctx}, D: {'plain'}, P: {'plain'}}
    b.max_live_locals = {INT: 0, FLOAT: 0}
    b.shape = ['single-mention', ctx, kind, depth, nloc]
    b.victim = V
    if ctx == 'times-count' and not fl: b.count_regs = {V}
    b.anti_scratch = False
    b.nstmts = len(parts)
    return b


def gen_timed_jump(rng, name):
    """Jumps with an explicit time (`goto L @ T`, conditional, &&/|| conditions, counting) where T is exactly the time of the target
    label, so that the script clock never runs ahead of or behind the labels; the not-taken path must keep its own time."""
    from .gensrc import Body, INT, FLOAT
    r = rng
    b = Body()
    P, Q, C = name(TL.EXTRA_INT[1]), name(TL.EXTRA_INT[2]), name(TL.EXTRA_INT[0])
    a, bb = r.randint(0, 20), r.randint(1, 20)
    k1, k2 = r.randint(-2, 2), r.randint(-2, 2)
    conds = ['(%s > %d) && (%s > %d)' % (P, k1, Q, k2), '(%s > %d) || (%s > %d)' % (P, k1, Q, k2), '%s > %d' % (P, k1), '!(%s > %d)' % (P, k1),
             '((%s > %d) && (%s > %d)) || (%s == %d)' % (P, k1, Q, k2, P, k2), '(%s > %d) && ((%s > %d) || (%s < %d))' % (P, k1, Q, k2, Q, k1)]
    form = r.wpick([('plain', 1), ('if', 3), ('unless', 3)])
    c = r.pick(conds)
    kind = r.pick(['forward', 'forward', 'backward'])
    lines = []
    if kind == 'forward':
        T = a + bb
        j = 'goto L @ %d;' % T if form == 'plain' else '%s (%s) goto L @ %d;' % (form, c, T)
        lines = ['+%d:' % a, 'call_S(1);', j, 'call_S(2);', '+%d:' % bb, 'L:', 'call_S(3);', '+%d:' % r.randint(0, 5), 'call_S(4);']
    else:
        T = a
        guard = '(%s < %d)' % (C, r.randint(1, 3))
        j = 'if (%s && (%s)) goto L @ %d;' % (guard, c, T) if form != 'unless' else 'unless (!%s || (%s)) goto L @ %d;' % (guard, c, T)
        lines = ['%s = 0;' % C, '+%d:' % a, 'L:', 'call_S(1);', '+%d:' % bb, '%s += 1;' % C, j, 'call_S(2);', '+%d:' % r.randint(0, 5), 'call_S(3);']
    b.text = '{\n' + '\n'.join(lines) + '\nins_101();\n}'
    b.mentioned = {TL.EXTRA_INT[0], TL.EXTRA_INT[1], TL.EXTRA_INT[2]}
    b.mention_ctx = {}
    b.shape = ['timed-jump', kind, form, c.count('&&'), c.count('||')]
    b.anti_scratch = False
    b.nstmts = len(lines)
    return b
