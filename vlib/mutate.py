"""G-mut: token-level and byte-level mutations of source text; byte/structure mutations of binaries."""
import re

TOKEN_RE = re.compile(r'"(?:[^"\\]|\\.)*"|[A-Za-z_][A-Za-z_0-9]*|\d+\.\d+f?|0[xX][0-9a-fA-F]+|\d+|>>>=|<<=|>>=|>>>|\+=|-=|\*=|/=|%=|\|=|&=|\^=|==|!=|<=|>=|<<|>>|&&|\|\||--|\+\+|\.\.\.|\s+|.', re.S)

DICT = ['if', 'else', 'unless', 'while', 'do', 'times', 'loop', 'break', 'goto', 'return', 'int', 'float', 'string', 'var', 'void', 'const', 'inline',
        'script', 'entry', 'meta', 'sub', 'switch', 'case', 'default', 'interrupt', 'async', 'global', 'offsetof', 'timeof', 'sin', 'cos', 'sqrt',
        '_S', '_f', 'REG', '$', '%', '@', '#', ':', ';', ',', '.', '(', ')', '{', '}', '[', ']', '+', '-', '*', '/', '=', '==', '!=', '<', '>', '<=', '>=',
        '&&', '||', '!', '~', '&', '|', '^', '<<', '>>', '>>>', '--', '++', '?', '+=', '>>>=', '0', '1', '-1', '2147483647', '2147483648', '4294967295',
        '4294967296', '99999999999999999999', '0x', '0xFFFFFFFF', '0b', '0b101', '1.0', '1f', '1.5f', '1e10', '.5', '5.', 'rad(1.0)', 'rad(', 'NAN', 'INF', 'PI',
        'true', 'false', '""', '"\\', '"abc', '"\\q"', '"\\0"', 'ins_', 'ins_0', 'ins_01', 'ins_99999', 'ins_70000', '@mask=', '@blob=', '@arg0=', '@pop=', '@nargs=',
        '@blob="00"', '@blob="zz"', '!E', '!6', '{"E"}:', '{"Q"}:', '{"*-"}:', 'x:', '10:', '+10:', '-10:', '+x:', 'pragma', 'mapfile', 'image_source', '#pragma mapfile "nope"',
        '/*', '*/', '//', '\n', '\t', '\x00', '\xff', 'é', '日本', '‮']

def tokens(text):
    return TOKEN_RE.findall(text)

def mutate_text(rng, text, n=None):
    """Token- or byte-level mutation.  Returns (new_text_bytes, kind)."""
    r = rng
    kind = r.wpick([('tok-delete', 3), ('tok-dup', 2), ('tok-swap', 2), ('tok-splice', 4), ('tok-replace', 4), ('byte-flip', 1.5), ('byte-insert', 1), ('truncate', 1.5), ('chunk-dup', 1), ('line-delete', 1.5)])
    if kind.startswith('tok') or kind in ('chunk-dup',):
        toks = tokens(text)
        if not toks: return text.encode('utf-8'), kind
        for _ in range(n or r.wpick([(1, 5), (2, 2), (4, 1)])):
            i = r.randrange(len(toks))
            if kind == 'tok-delete': del toks[i]
            elif kind == 'tok-dup': toks.insert(i, toks[i])
            elif kind == 'tok-swap':
                j = r.randrange(len(toks)); toks[i], toks[j] = toks[j], toks[i]
            elif kind == 'tok-splice': toks.insert(i, r.pick(DICT))
            elif kind == 'tok-replace': toks[i] = r.pick(DICT)
            elif kind == 'chunk-dup':
                j = min(len(toks), i + r.randint(1, 12)); toks[i:i] = toks[i:j]
            if not toks: break
        return ''.join(toks).encode('utf-8', 'surrogatepass'), kind
    data = bytearray(text.encode('utf-8'))
    if kind == 'line-delete':
        lines = text.split('\n')
        if len(lines) > 1: del lines[r.randrange(len(lines))]
        return '\n'.join(lines).encode('utf-8'), kind
    if not data: return bytes(data), kind
    if kind == 'byte-flip':
        for _ in range(r.randint(1, 3)):
            data[r.randrange(len(data))] = r.pick([0, 0x80, 0xff, 0xc3, 0x22, 0x5c, r.randrange(256)])
    elif kind == 'byte-insert':
        i = r.randrange(len(data)); data[i:i] = bytes([r.randrange(256) for _ in range(r.randint(1, 4))])
    elif kind == 'truncate':
        data = data[:r.randrange(len(data))]
    return bytes(data), kind

def mutate_bytes(rng, data):
    """Generic byte-level mutation of a binary."""
    r = rng
    d = bytearray(data)
    kind = r.wpick([('flip', 4), ('set-extreme', 4), ('truncate', 2), ('insert', 1), ('delete', 1), ('dword-extreme', 4), ('word-extreme', 3), ('copy-chunk', 1)])
    if not d: return bytes(d), kind, 0
    pos = r.randrange(len(d))
    if kind == 'flip':
        for _ in range(r.wpick([(1, 4), (2, 2), (5, 1)])):
            p = r.randrange(len(d)); d[p] ^= 1 << r.randrange(8)
    elif kind == 'set-extreme':
        d[pos] = r.pick([0, 1, 0x7f, 0x80, 0xff, 0xfe])
    elif kind == 'truncate':
        d = d[:pos]
    elif kind == 'insert':
        d[pos:pos] = bytes([r.randrange(256) for _ in range(r.pick([1, 2, 4, 16]))])
    elif kind == 'delete':
        del d[pos:pos + r.pick([1, 2, 4, 16])]
    elif kind == 'dword-extreme':
        pos -= pos % 4
        v = r.pick([0, 1, 0xffffffff, 0x7fffffff, 0x80000000, 0xfffffffe, len(d), len(d) - 1, len(d) + 1, len(d) * 2, 0x10000, 0xffff, 4000000000, 0x40000000])
        d[pos:pos + 4] = v.to_bytes(4, 'little')
    elif kind == 'word-extreme':
        pos -= pos % 2
        v = r.pick([0, 1, 0xffff, 0x7fff, 0x8000, 0xfffe, 4, 7, 8, 11, 12, len(d) & 0xffff])
        d[pos:pos + 2] = v.to_bytes(2, 'little')
    elif kind == 'copy-chunk':
        q = r.randrange(len(d)); n = r.pick([4, 8, 16, 64])
        d[pos:pos + n] = d[q:q + n]
    return bytes(d), kind, pos
