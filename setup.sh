#!/bin/sh
# Build the harness (dev profile) against /repo's current tree, offline.
set -e
cd "$(dirname "$0")/harness"
export RUSTFLAGS="--cfg truth_verif" CARGO_NET_OFFLINE=true CARGO_TARGET_DIR=/verif/target
cargo build --offline --bins
