#!/bin/bash
# Development tool: build the libFuzzer targets (ASan + coverage; -a = debug assertions and overflow checks on) against /repo's tree.
cd /verif/harness && RUSTFLAGS="--cfg truth_verif" CARGO_NET_OFFLINE=true CARGO_TARGET_DIR=/verif/target/fuzz cargo +nightly fuzz build "$@"
