#!/usr/bin/env python3
"""Development helper: evaluate checks against a seeded change in a *scratch worktree* (does not touch /repo).

usage: tools/seeded_scratch.py <seeded dir> [--only C01,C02] [--seeds 1,2] [--tier quick] [--keep] [--record]

Creates /tmp/vscratch/<name>/{wt,target,out}: a git worktree of /repo HEAD with the patch applied, a private cargo target
directory (seeded from /verif/target to get an incremental build) and a private evidence/replay directory.  tools/seeded_eval.py does the
same by applying the patch to /repo itself (and undoing it); this tool leaves /repo untouched so that several changes can be
evaluated in parallel and while other runs build from /repo.  With --record the outcome is written to meta.json (marked with the
mode it was obtained in).
"""
import json, os, re, shutil, subprocess, sys
V = '/verif'
def sh(*a, **kw): return subprocess.run(a, capture_output=True, text=True, **kw)
def main():
    d = os.path.abspath(sys.argv[1]); name = os.path.basename(d.rstrip('/'))
    only = None; seeds = ['1']; tier = 'quick'; keep = '--keep' in sys.argv
    for i, a in enumerate(sys.argv):
        if a == '--only': only = sys.argv[i + 1].split(',')
        if a == '--seeds': seeds = sys.argv[i + 1].split(',')
        if a == '--tier': tier = sys.argv[i + 1]
    base = '/tmp/vscratch/' + name
    wt, target, out = base + '/wt', base + '/target', base + '/out'
    if not os.path.isdir(wt):
        os.makedirs(base, exist_ok=True)
        r = sh('git', '-C', '/repo', 'worktree', 'add', '--detach', wt, 'HEAD')
        if r.returncode: print('worktree failed:', r.stderr); return 2
        r = sh('git', '-C', wt, 'apply', os.path.join(d, 'patch.diff'))
        if r.returncode: print('patch does not apply:', r.stderr); return 2
    if not os.path.isdir(target) and os.path.isdir(V + '/target'):
        sh('cp', '-r', '--reflink=auto', V + '/target', target)
    env = dict(os.environ, VERIF_REPO=wt, VERIF_TARGET=target, VERIF_OUT=out)
    own = re.sub(r'^R\d', '', name).split('-')[0]
    props = only or [own]
    caught = []
    record = '--record' in sys.argv
    meta = json.load(open(os.path.join(d, 'meta.json')))
    results = meta.setdefault('checks', {})
    for p in props:
        for seed in seeds:
            r = sh('./check', p, '--tier', tier, '--seed', seed, cwd=V, env=env)
            sigs = re.findall(r'^\s+signature: (.*)$', r.stdout, flags=re.M)
            viol = re.findall(r'^VIOLATION property=(\S+)', r.stdout, flags=re.M)
            print('%s %s/%s/seed%s exit %d violations %d %s %s' % (name, p, tier, seed, r.returncode, len(viol), sigs[:3],
                  ('BROKEN: ' + r.stdout[-400:]) if r.returncode == 2 else ''), flush=True)
            if record:
                results['%s/%s/seed%s' % (p, tier, seed)] = {'exit': r.returncode, 'violations': len(viol), 'signatures': sigs[:8], 'broken': r.returncode == 2,
                                                             'mode': 'scratch worktree of /repo HEAD + patch (VERIF_REPO)'}
            if viol: caught.append(p); break
    print(name, 'caught by:', sorted(set(caught)))
    if record:
        meta['caught_by'] = sorted({k.split('/')[0] for k, v in results.items() if v['violations']})
        json.dump(meta, open(os.path.join(d, 'meta.json'), 'w'), indent=1)
    if not keep:
        sh('git', '-C', '/repo', 'worktree', 'remove', '--force', wt)
        shutil.rmtree(base, ignore_errors=True)
    return 0
sys.exit(main())
