#!/usr/bin/env python3
import json, glob, sys
prop = sys.argv[1]
lim = int(sys.argv[2]) if len(sys.argv) > 2 else 600
for p in sorted(glob.glob('/verif/replays/%s/*.json' % prop)):
    r = json.load(open(p))
    print('=====', p); print('SIG ', r['signature']); print('WHAT', str(r['what'])[:500])
    for k in ('class', 'config', 'lang'):
        if k in r: print(k.upper(), r[k])
    if 'job' in r: print('JOB ', {k: v for k, v in r['job'].items() if k not in ('in', 'out')})
    if 'mapfile' in r and r['mapfile']: print('MAPFILE', repr(r['mapfile'][:300]))
    t = r.get('text') or (r.get('req') or {}).get('body') or ''
    print('TEXT', t[:lim] if len(t) <= lim else t[:lim // 2] + '\n...\n' + t[-lim // 2:])
    if r.get('frames'): print('FRAMES', r['frames'][:6])
