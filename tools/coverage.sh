#!/bin/bash
# Development tool: line coverage of /repo/src under the quick workload of the given checks (default: all).
# usage: tools/coverage.sh [C01 C02 ...]   -> /tmp/vcov/report/<ID>.txt (per-file summary) and /tmp/vcov/report/<ID>.uncovered.txt
set -e
cd "$(dirname "$0")/.."
B=/root/.rustup/toolchains/nightly-x86_64-unknown-linux-gnu/lib/rustlib/x86_64-unknown-linux-gnu/bin
export VERIF_TARGET=/tmp/vcov/target VERIF_OUT=/tmp/vcov/out VERIF_CARGO_TOOLCHAIN=+nightly VERIF_RUSTFLAGS_EXTRA="-Cinstrument-coverage"
mkdir -p /tmp/vcov/report
props="$@"; [ -z "$props" ] && props=$(python3 -c "import json;print(' '.join(c['property_id'] for c in json.load(open('MANIFEST.json'))['checks']))")
for p in $props; do
  rm -rf /tmp/vcov/prof; mkdir -p /tmp/vcov/prof
  LLVM_PROFILE_FILE=/tmp/vcov/prof/%p-%8m.profraw ./check $p --tier quick --seed ${VERIF_SEED:-1} | tail -1
  $B/llvm-profdata merge -sparse /tmp/vcov/prof/*.profraw -o /tmp/vcov/$p.profdata 2>/dev/null
  $B/llvm-cov report /tmp/vcov/target/debug/vworker -object /tmp/vcov/target/debug/vtruth -instr-profile=/tmp/vcov/$p.profdata --ignore-filename-regex='(\.cargo|rustc|/verif/|target/)' > /tmp/vcov/report/$p.txt 2>/dev/null
  $B/llvm-cov show /tmp/vcov/target/debug/vworker -object /tmp/vcov/target/debug/vtruth -instr-profile=/tmp/vcov/$p.profdata --ignore-filename-regex='(\.cargo|rustc|/verif/|target/)' --show-line-counts-or-regions=false > /tmp/vcov/report/$p.show.txt 2>/dev/null
  tail -1 /tmp/vcov/report/$p.txt
done
