#!/bin/bash
# usage: tools/seeded_confirm.sh <worktree> <candidate dir (contains patch.diff, demo.sh)>
# Confirms, in the scratch worktree (never /repo): patch applies, builds, stable tests pass, demo runs on patched and unpatched builds.
wt=$1; cand=$2
mkdir -p $cand/confirm
cd $wt || exit 2; export WT=$wt
git checkout -q -- . ; git clean -qfd -e target >/dev/null 2>&1
cargo build --offline >/dev/null 2>&1
( RUST_BACKTRACE=0 bash $cand/demo.sh ) > $cand/confirm/demo_unpatched.txt 2>&1
git apply $cand/patch.diff || { echo "APPLY-FAILED" > $cand/confirm/result.txt; exit 1; }
cargo build --offline > $cand/confirm/build.log 2>&1 || { echo "BUILD-FAILED" > $cand/confirm/result.txt; git checkout -q -- .; exit 1; }
( RUST_BACKTRACE=0 bash $cand/demo.sh ) > $cand/confirm/demo_patched.txt 2>&1
RUST_BACKTRACE=0 cargo test --workspace --no-fail-fast --offline > $cand/confirm/test.log 2>&1
python3 /verif/tools/baseline_cmp.py $cand/confirm/test.log > $cand/confirm/tests.txt 2>&1
git checkout -q -- . ; git clean -qfd -e target >/dev/null 2>&1
if grep -q "stable_pass not passing now: 0" $cand/confirm/tests.txt; then
  if cmp -s $cand/confirm/demo_unpatched.txt $cand/confirm/demo_patched.txt; then echo "DEMO-SAME" > $cand/confirm/result.txt; else echo "CONFIRMED" > $cand/confirm/result.txt; fi
else echo "TESTS-FAIL" > $cand/confirm/result.txt; fi
cat $cand/confirm/result.txt
