#!/usr/bin/env python3
"""Regenerates /verif/MANIFEST.json from the table below (single source of truth for the registered checks)."""
import json, os, subprocess
V = os.path.dirname(os.path.dirname(os.path.abspath(__file__)))

CHECKS = {
 'C02': dict(technique='runtime monitoring: two oracles over the executions of seeded generated bodies x configs x states: AstVm differential (source vs raise(lower(source))) and an independent interpreter of the emitted instruction stream (vlib/ivm.py) compared with the source-side trace',
             text='Exploration. Every generated body that compiles without warnings is executed from many register states and difficulties both as source and as the raised '
                  'lowered instruction stream; call logs (opcode, argument bits, real time) and all mentioned / non-scratch registers must agree. Quick: ~2k bodies, thorough: ~60k. Plus a directed workload: one register mentioned exactly once in a chosen syntactic context (17 contexts: nested difficulty switches, ternary branches, conditions, casts, ...) under register pressure.',
             note='Second oracle: the emitted RawInstrs are executed, without decompiling them, by an interpreter written from the mapfile semantics of the intrinsic kinds (vlib/ivm.py, arithmetic from the C11 model) and its call log / registers are compared with the source-side AstVm trace; this sees mistakes that encoder and decoder share (a hand-written seeded change of that kind, seeded/X02-shared-abi, is caught only by it). Runs using sin/cos are left to the first oracle (libm last-bit differences). Trusts AstVm as the language semantics (the property does too). NaN-free floats; source-side VM panics are inconclusive. Held only on the programs/configs generated.',
             design='3/C02'),
 'C05': dict(technique='runtime monitoring: invariant at a hook (register-allocator event log checked online against generator ground truth)',
             text='Exploration. The cfg(truth_verif) hook in assign_registers emits PoolInit/Alloc/Free events; every Alloc is checked against the registers the generator wrote into the '
                  'source (any position), the independently listed general-purpose set of the language, and the set of live allocations; refusals must carry an error diagnostic. Plus the directed single-mention workload (see C02) on TestLanguage, ANM and old ECL register files.',
             note='Third session: whole old-ECL files through the real truecl compile (2-4 subs with parameters calling each other, the file-global scratch-forbidding instruction in any one sub): no allocated register is a parameter register of its sub or mentioned in it, and the file-global refusal does not depend on the order of subs. General-purpose register lists per game are encoded independently in vlib/realenv.py. Lexical lifetimes assumed. Parameter registers are covered through the CLI sub workload.',
             design='3/C05'),
}
CHECKS['C06'] = dict(technique='runtime monitoring: AstVm differential oracle (block-structured body vs passes::desugar_blocks output)',
             text='Exploration. Generated nestings (depth <= 5) of if/else-if/else, while, do-while, times (+/- counter), loop, break, free blocks with time labels everywhere are run in '
                  'AstVm before and after the real desugar_blocks pass from many register states; call log with real times, final time/real_time and all registers must agree. Quick ~3k bodies.',
             note='Trusts AstVm for both forms. Time labels are kept monotone along the text (time never runs ahead of a statement label) and loop counts non-negative; goto is not among the constructs quantified.',
             design='3/C06')
CHECKS['C07'] = dict(technique='runtime monitoring: AstVm differential oracle (raise with blocks vs raise without blocks) + recompile-equality of both forms',
             text='Exploration. Instruction streams from lowered structured bodies and from random flat jump graphs (overlapping loops, shared end labels, multi-referrer labels, explicit-time '
                  'jumps, interrupt labels, both counting-jump flavours) are raised with block recovery off and on (+postprocess); both ASTs are executed in AstVm from many states and both printed '
                  'forms are re-parsed and re-lowered: traces must agree and, when both recompile, the instructions must be identical. A third stream family are near-structured streams: the flat forms of nested if/else-if chains, while/do-while loops and loops with breaks, perturbed by 0-2 edits (jump retargeted, label moved by one statement, goto dropped, jump duplicated).',
             note='Trusts AstVm; where the block form contains a jump into a nested block the comparison runs on its desugaring (relies on C06). Streams with explicit-time jumps are decided by the '
                  'recompile-equality oracle only (AstVm block-time rule is inexact when time runs ahead of labels). Difficulty-tagged jumps are not generated (TestLanguage has no difficulty).',
             design='3/C07')
CHECKS['C04'] = dict(technique='runtime monitoring: crash/abort/CPU/allocation monitors + Result-vs-diagnostics oracle over generated, mutated and hostile text inputs',
             text='Exploration. Every input is compiled in an isolated worker process through the exact CLI pipeline; the monitors observe worker death (abort, stack overflow, allocation failure), '
                  'panics (hook with site signature, including diagnostic-rendering panics), CPU seconds and peak allocation, and the oracle requires failure <=> an error-severity diagnostic was printed. '
                  'Inputs: grammar-generated files for all tools/games, token/byte mutants, a hostile list (extreme literals, reserved syntax, nesting to 256), mapfile texts. Thorough runs dev and release profiles. Plus the finite typing matrix of C09 (every operator/condition/count construct x int/float/string operands, in random nestings) and multi-byte characters inserted at every position of mapfiles.',
             note='Third session: the intrinsic matrix pairs every intrinsic kind with a statement that lowers through it and inserts padding at every position of every signature; label-valued arguments (timeof/offsetof) in parameters of every width; truncated section headers, user enums re-defining built-in names, multi-file gamemap cases (self reference, cycles, chains, missing files); calls in places that cannot express them (call sugar in timelines, functions nested in subs/scripts). In-process wrappers of the private CLI run functions (cfg(truth_verif)); a sample is re-executed through the real process. Unbounded liveness restated as 20 CPU-seconds. Requests for legitimately '
                  'enormous outputs (65535x65535 dummy image) are not treated as hostile.',
             design='3/C04')
CHECKS['C16'] = dict(technique='runtime monitoring: crash/abort/CPU/allocation monitors + Result-vs-diagnostics oracle over mutated binary inputs',
             text='Exploration. Corpus binaries (30 bundled + compiled from generated sources for every format/game, including ANM files with embedded textures and TH10+ ECL) are truncated (stride and at every field boundary), '
                  'field-targeted (an independent layout parser with read tracing yields every header field, count, offset, size, instruction header and bulk region of the file; one or two are set to boundary values, regions get damaged bytes), '
                  'generically bit/byte/word/dword-mutated, read cross-game, and fed to decompile (random option subsets and widths), truanm extract and truanm compile -i FILE (image-source reader) in isolated workers; same monitors as C04 plus: an error must name the file, '
                  'peak allocation <= 64 MiB + 4096 x input size.',
             note='Not coverage-guided in the registered check (a given seed is reproducible); libFuzzer targets over the same entry points (harness/fuzz: fz_bin, fz_text, fz_map) were run for hours during development and found nothing beyond what is fixed/listed. One known finding: extract materialises (w+offset_x) x (h+offset_y) output images. dev profile (overflow checks) in quick, dev+release in thorough.',
             design='3/C16')
CHECKS['C01'] = dict(technique='runtime monitoring: round-trip oracle (bytes of compile(decompile(B)) vs B) over bundled and freshly compiled binaries, option subsets, widths, alias mapfiles',
             text='Exploration. B ranges over the 30 bundled binaries (all 32 option subsets each) and binaries truth just compiled from generated sources of every format/game; each is decompiled under sampled '
                  'option subsets x widths (x optional alias mapfile), recompiled (ANM with -i B) and compared bytewise; mismatches are classified by an independent layout parser (first differing field). Old-ECL sources contain runs of look-alike instructions under per-difficulty labels (with time labels inside the run, masks with holes, extra flag bits, incomplete covers), the inputs on which difficulty-switch recovery can go wrong.',
             note='Third session: user mapfiles that add enums (int parameters re-declared enum-typed, shared constant names, own difficulty-flag names), non-monotone timeline times, difficulty labels on TH08+ timeline items. Loss-warning exemption = any decompile warning other than the byte-blob notice; exemptions are counted. Generators avoid constant conditions / unreferenced MSG scripts most of the time '
                  '(both are recorded known findings).',
             design='3/C01')
CHECKS['C19'] = dict(technique='runtime monitoring: repeated fresh process launches with byte comparison of stdout, stderr and output files',
             text='Exploration. Each (command, input) is executed N times as fresh vtruth processes (new hash-map seeds each); all observations must be byte-identical. Inputs are constructed to have '
                  'competing entries at hash-map iterations that reach output (register-name clashes, enum definitions, too-complex notes, many simultaneous errors) plus generated/mutated sources, '
                  'decompiles and extracts. N = 8 quick (miss <= 2^-7 per 2-way race), 40 thorough. Constructed inputs now include one intrinsic assigned to several opcodes, several names for one opcode/register, and decompiles of files with many unknown or wrongly-signed opcodes.',
             note='Third session: constructed inputs for unknown-enum diagnostics, suggestion ties, two intrinsics able to serve one construct, PCB call sites that disagree; a process killed by SIGKILL/SIGTERM is inconclusive (truth sends no signals). Probabilistic: a k-way hash-order race is missed with probability <= (1/k!)^(N-1)... at worst 2^-(N-1). Only the hash seed varies between runs (single-threaded tool).',
             design='3/C19')
CHECKS['C08'] = dict(technique='runtime monitoring: print/parse round-trip oracle with a canonical AST serialiser, over generated, decompiled and directly built ASTs x widths',
             text='Exploration. For each AST x (parsed generated files of every format, the same with literals folded, decompiler output of corpus binaries, and directly built expression ASTs with negative '
                  'literals in every radix, all f32 classes, nested unary operators, switches with holes, hostile strings) and widths w in 1..200: parse(fmt(x,w)) must succeed, the canonical forms must be equal '
                  '(floats by bits) and printing the re-parsed script must give the same text.',
             note='Third session: prefix operators in front of operands only reachable from text (calls, enum constants, pre-/post-increment, label properties, names starting with the letters of the legacy !ENHL syntax). canon ignores spans, ids and integer display hints and identifies INF/NAN/true/false with their literals; idempotence is judged modulo integer display hints (hex/bin/bool/unsigned spellings are '
                  'formatter hints the parser does not keep).',
             design='3/C08')
CHECKS['C11'] = dict(technique='runtime monitoring: reference-model oracle (independent evaluator) over const_simplify output, const items, AstVm results and compiled bytes',
             text='Exploration. Typed expression trees over every operator with boundary operands are (a) folded by the real const_simplify / const-item evaluator and compared with an independent evaluator '
                  '(32-bit wrap, truncating division, shift mod 32, >> vs >>>, binary32 per operation, C-style logic), undefined values must be diagnosed; (b) run in AstVm before and after folding under register '
                  'valuations and compared with the model; (c) compiled as `const X = e; f(X)` and as `f(e)` through the CLI and compared bytewise.',
             note='Float->int casts out of range and NaN payloads unjudged; transcendental functions within 2 ulp; python float arithmetic rounded to binary32 per operation is exact for + - * / sqrt fmod.',
             design='3/C11')
CHECKS['C09'] = dict(technique='runtime monitoring: generator-as-reference-typer oracle over well-typed programs and single-point type mutations; static-vs-dynamic type monitor',
             text='Exploration. Bodies generated from the documented typing rules must be accepted by the real type_check pass; for each, one typed expression slot at a random position (any block depth, any '
                  'statement kind: operands, conditions, counts, initialisers, arguments, switch cases, ternary branches) is replaced by an expression of another type and must be rejected, plus a fixed list of '
                  'ill-typed statements wrapped in every kind of nested block; for accepted bodies every assignment RHS subexpression is evaluated (AstVm::eval) and its value type compared with compute_ty. A finite matrix (552 cells) of every operator / assignment operator / condition / loop count / ternary / difficulty switch / call argument construct x operand types, each in a random nesting, must get the verdict of an independent rule table.',
             note='The generator is the reference typer (well-typed by construction, ill-typed by the single injected fault). The debug_assert_eq!(check_expr, compute_ty) in the dev build is an extra in-code monitor.',
             design='3/C09')
CHECKS['C10'] = dict(technique='runtime monitoring: reference-model oracle (independent scope model) over the resolver\'s def-equivalence classes; metamorphic renaming oracle on compiled bytes',
             text='Exploration. Scope trees over a pool of 4 variable / 2 function names (+ aliases of this and another language) are resolved by the real resolver; the partition of identifier occurrences by '
                  'definition (read from the make_idents_unique rendering, in text order) must equal the partition computed by an independent model, programs with a model-detected error must be rejected, and '
                  'consistently renamed programs must resolve to the same partition and (for function-free programs, through the ANM CLI pipeline) compile to identical bytes. File level: ANM scripts/sprites named like register or instruction aliases must bind to the declared thing wherever used as a value (checked in the written file and by renaming), and old-ECL instruction aliases that exist in both languages of a file bind per language.',
             note='Undocumented combinations are not generated (local+const of one name in one block, local named like a parameter in the body block, name used in its own initialiser, arity mismatches).',
             design='3/C10')
CHECKS['C12'] = dict(technique='runtime monitoring: reference-model oracle (independent argument encoder) + inverse-function oracle (decode, re-encode) over random signatures and boundary values',
             text='Exploration. Random valid signatures (all parameter letters and attributes, padding anywhere, <= 16 parameters) are declared in a user mapfile; one call with boundary values / registers / strings '
                  'is compiled through the real ANM pipeline; the blob and register mask read by an independent layout parser must equal an independent encoder, the argument list printed by decompile must equal the '
                  'arguments written, re-encoding must reproduce the blob, and values that fit under neither reading / unencodable strings / oversize strings must be diagnosed. A register given to an immediate-only parameter (accepted with a warning) must be stored without a mask bit while still occupying its bit position.',
             note='Third session: intrinsic instructions with padding anywhere in their signature (statement -> bytes -> statement -> bytes). Conservative range rule (see DESIGN 3/C12). Jump (o,t) and arg0 parameters are exercised by C01/C13, not here. Registers only in 4-byte int and float slots.',
             design='3/C12')
CHECKS['C15'] = dict(technique='runtime monitoring: inverse-function oracle (decompiled literal == source string) over a character/length sweep under every string encoding',
             text='Exploration. Strings over the unambiguous Shift-JIS repertoire (incl. trail bytes 0x5C/0x7C/0x40 and bytes equal to the running mask) of lengths 0..300 around all block/buffer boundaries '
                  'and furigana sequences are compiled and decompiled as instruction arguments under every string encoding (user signatures in ANM; built-in MSG/END signatures of TH06-TH18) and as STD names, '
                  'ANM paths and ciphered mission lines; the decompiled literal must be identical, unencodable or oversize strings must be rejected with an error. Fixed buffers (also nulless+masked) and 128/64-byte metadata fields get strings that fill them exactly, one byte less and one byte more, counted in bytes with multi-byte characters.',
             note='Repertoire = characters on which python shift_jis and cp932 agree and round-trip (backslash/tilde excluded). With a pending furigana carry-over (furibug) only survival is judged, not the size limit.',
             design='3/C15')
CHECKS['C13'] = dict(technique='runtime monitoring: reference-model oracle (independent label arithmetic) over times read from compiled files by an independent layout parser',
             text='Exploration. Label/instruction sequences (absolute, relative, negative, zero, repeated, constant-expression, const-item and wrapping labels; nested in blocks, if/else, loop, times) are compiled '
                  'for ANM, MSG, STD and old ECL; the time stored on every marker instruction must equal the model; the decompiled text, read back with the same model, must reproduce the stored times, and '
                  'recompiling must reproduce them again. Old-ECL sequences include runs of markers under per-difficulty labels with time labels inside the run (the decompiler merges such runs into difficulty switches).',
             note='Only times inside the field range of the format are judged here (C03 covers the rest).',
             design='3/C13')
CHECKS['C14'] = dict(technique='runtime monitoring: exhaustive enumeration of masks per flag set through the real DiffFlagDefs + exactly-one coverage monitor over emitted instruction copies',
             category='exploration',
             text='Part 1: for sampled flag-definition sets (default digits, shipped sets, generated renamings / default-on bits) all 256 masks are printed and parsed back (real code), cross-checked by an '
                  'independent label parser, and pushed end to end through decompile + recompile of a harness-written ECL file with masks 0..255. Part 2: statements with 1-3 (possibly nested) switches with holes '
                  'under every kind of label are compiled; for every difficulty the emitted copies must satisfy the exactly-one / right-values / default-on-bits conditions. Part 3 (decompile side): harness-written ECL files with runs of look-alike instructions whose masks form partitions, partitions with a gap, overlaps, incomplete covers, differing default-on bits, or are separated by time labels are decompiled with switch recovery on and recompiled; every instruction must keep its time, mask and argument. Flag sets are also defined in two layers (later definition wins).',
             note='Exhaustive only in the mask dimension; flag sets and statements are sampled.',
             design='3/C14')
CHECKS['C18'] = dict(technique='runtime monitoring: offline checker of the debug-info document against offsets/registers recomputed from the written binary by an independent layout parser',
             text='Exploration. Generated files of every format are compiled with --output-debug-info; instruction offsets, end offsets and label offsets of every exported script are compared with the '
                  'binary (independent layout parser); dedicated workloads check label times against the C13 label model and label positions between the surrounding marker instructions, every local\'s '
                  'bound-to register against the register actually encoded in a marker instruction that uses it (ANM, EoSD..StB ECL, nested blocks, times loops), and const values against the C11 evaluator. TH12+ MSG scripts with furigana lines (whose left-over bytes enlarge the next instruction) are checked for instruction, label and end offsets.',
             note='MSG files with unreferenced scripts are skipped (not delimitable in the binary). Only finite const values judged.',
             design='3/C18')
CHECKS['C20'] = dict(technique='runtime monitoring: reference-model oracle (numbering rule written from the documentation) compared with ids/indices/offsets in the written file read by an independent layout parser',
             text='Exploration. Generated ANM/MSG/old-ECL/STD layouts (1..6 things in any order, explicit/decreasing/duplicate/const-expression ids, duplicate sprite names across entries, sparse MSG tables with defaults and '
                  'shared scripts, use before definition) are compiled; the expected id of every name is computed from the documented rule and compared with the tables of the written file and with the argument '
                  'written by every instruction that uses the name (sprite/script arguments, timeline sub arguments in the arg0 field or blob, call instructions, MSG table offsets via marker instructions, '
                  'STD instance object indices). Conflicting sprite ids and unknown names must be errors. Constant-expression ids use ternaries, bit operators, comparisons, division and shifts over a const item.',
             note='Modern (th10+) ECL sub names are strings, not numbers, and are outside this property. MSG scripts are located through marker instructions, so every script is referenced at least once.',
             design='3/C20')
CHECKS['C17'] = dict(technique='runtime monitoring: exhaustive pixel sweep through the real transcoders + byte-for-byte comparison of THTX sections after real extract/compile runs against an independent image-source precedence model',
             text='Exploration; the pixel dimension of the 8/16-bit formats is exhaustive (in-process through the hooked transcoders, and end to end in 256x256 textures through truanm extract + compile). '
                  'Generated ANM files with arbitrary texture bytes (every format, sizes 1..64 and some larger, offsets 0..8, duplicate paths) go through extract + compile -i dir, compile -i original.anm (also with '
                  'all image fields removed from the source) and compile with 2-4 sources (ANM files / directories, -i and #pragma image_source) that carry different bytes; expected textures come from an independent '
                  'model of the precedence rule.',
             note='32-bit pixels are sampled (edge values + random). Entries sharing a path in a directory source are only required to equal one of the candidates (the directory holds one file per path).',
             design='3/C17')
CHECKS['C03'] = dict(technique='runtime monitoring: boundary-value sweep of every source-settable on-disk field through the real compile command, with an independent layout parser reading the field back and truth itself re-reading the file',
             text='Exploration. ~130 (field, format) pairs: time labels, opcodes, @mask/@arg0/@pop/@nargs, narrow b/c/s/u arguments, argument-blob and string lengths around 255/32767/65535, fixed 128-byte STD strings, '
                  'ANM entry and THTX header fields, sprite/script ids, STD layer/anm_script/unknown, MSG table flags, mission.msg entry fields, and sprite/script/object/quad/instance/sub counts at 65534..70000. '
                  'If the compile succeeds the stored bits must be the requested value (two\'s complement allowed), neighbouring fields and the following instruction must be intact, and truanm/trustd/trumsg/truecl '
                  'decompile must read the file back; otherwise an error diagnostic is required.',
             note='Third session: read-back is now judged by recompile equality (the text truth decompiles from its own output must compile to the same bytes, unless decompile printed a loss warning), header fields the format version has no room for must be refused when non-zero, and the time -1 x first-argument 4 combination of TH06/07 timelines is swept. Formats without a given field are not swept for it (offset_x/offset_y of ANM v0-v4). Values are limited to the i32 range of source literals. Rejecting an in-range value is counted, not judged.',
             design='3/C03')
WIP = {}  # property -> reason (not claimed)

def main():
    commits = subprocess.run(['git', '-C', '/repo', 'log', '--format=%h %s'], capture_output=True, text=True).stdout.splitlines()
    hook_commits = [l.split()[0] for l in commits if l.split(' ', 1)[1].startswith('verif hooks')]
    props = [json.loads(l)['id'] for l in open(os.path.join(V, 'properties.jsonl'))]
    checks = []
    for pid in props:
        if pid not in CHECKS: continue
        c = CHECKS[pid]
        checks.append({
            'property_id': pid,
            'quick_cmd': './check %s --tier quick' % pid,
            'thorough_cmd': './check %s --tier thorough' % pid,
            'evidence_file': 'evidence/%s.json' % pid,
            'replay_cmd_template': './check %s --replay {path}' % pid,
            'engine': 'check',
            'level_claimed': {'category': c.get('category', 'exploration'), 'text': c['text'], 'design_ref': 'DESIGN.md section ' + c['design']},
            'level_note': c['note'],
            'technique': c['technique'],
        })
    na = [{'property_id': p, 'reason': WIP.get(p, 'check not built yet (work in progress in this session; the design in DESIGN.md section 3 applies)')} for p in props if p not in CHECKS]
    m = {
        'version': 1,
        'setup_cmd': './setup.sh',
        'hooks': {'guard': '--cfg truth_verif',
                  'enable': "RUSTFLAGS='--cfg truth_verif' cargo build in /verif/harness (path dependency on /repo); done by ./check on every invocation",
                  'baseline_off_cmd': 'cd /repo && cargo test --workspace --no-fail-fast --offline',
                  'source_commits': hook_commits, 'add_only': True},
        'engines': [
            {'name': 'vworker', 'path': 'harness/src/bin/vworker.rs', 'serves_properties': sorted(CHECKS), 'kind_free_text': 'in-process observation server over the real truth crate: CLI pipelines, pass pipelines, AstVm differential, panic hook with site signatures, counting allocator, allocator event log'},
            {'name': 'vtruth', 'path': 'harness/src/bin/vtruth.rs', 'serves_properties': sorted(CHECKS), 'kind_free_text': 'the real CLI dispatch (truth::cli_def::truth_main) as a process, for cross-checks, replays and C19'},
            {'name': 'check', 'path': 'check', 'serves_properties': sorted(CHECKS), 'kind_free_text': 'python driver (vlib/): seeded generators, independent models, oracles, watchdogs, evidence, known findings'},
        ],
        'checks': checks,
        'not_applicable': na,
        'notes': 'exit 0 = held on everything explored (KNOWN-FINDING lines allowed), exit 1 = VIOLATION lines, exit 2 = check broken (no verdict). Known findings: known_findings.json.',
    }
    json.dump(m, open(os.path.join(V, 'MANIFEST.json'), 'w'), indent=1)
    print('wrote MANIFEST.json with %d checks, %d not claimed' % (len(checks), len(na)))

if __name__ == '__main__':
    main()
