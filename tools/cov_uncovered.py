#!/usr/bin/env python3
"""Development tool: list the line ranges of a source file that a coverage run (tools/coverage.sh) never executed.
usage: tools/cov_uncovered.py <ID> <path suffix, e.g. src/llir/raise/early.rs>"""
import re, sys
def uncovered(showfile, target):
    out = []; cur = None
    for line in open(showfile, errors='replace'):
        if line.startswith('/') and line.rstrip().endswith(':'):
            cur = line.strip()[:-1]; continue
        if cur and cur.endswith(target):
            m = re.match(r'\s*(\d+)\|\s*([0-9.kME]*)\|(.*)', line)
            if m and m.group(2) == '0': out.append((int(m.group(1)), m.group(3).rstrip()))
    return out
u = uncovered('/tmp/vcov/report/%s.show.txt' % sys.argv[1], sys.argv[2])
prev = None; start = None; buf = []
def flush():
    if buf: print('%d-%d: %s' % (start, prev, ' / '.join(x.strip() for x in buf)[:int(sys.argv[3]) if len(sys.argv) > 3 else 170]))
for n, t in u:
    if prev is not None and n == prev + 1: buf.append(t)
    else:
        flush(); start = n; buf = [t]
    prev = n
flush()
