#!/usr/bin/env python3
"""Compare a `cargo test --workspace --no-fail-fast` log of /repo (guard off) with /root/.vp/BASELINE.json."""
import json, re, sys
b = json.load(open('/root/.vp/BASELINE.json'))
sp = set(b['stable_pass'])
log = open(sys.argv[1]).read()
ok, fail, cur = set(), set(), None
for line in log.splitlines():
    m = re.match(r'\s+Running (unittests )?(\S+)', line)
    if m:
        path = m.group(2)
        cur = 'truth' if 'src/lib.rs' in path else ('truth::' + re.sub(r'\.rs$', '', path.split('tests/')[1]) if 'tests/' in path else '?' + path)
        continue
    m = re.match(r'test (\S+)( - should panic)? \.\.\. (ok|FAILED)', line)
    if m and cur: (ok if m.group(3) == 'ok' else fail).add(cur + '::' + m.group(1))
missing = sorted(sp - ok)
print('passed %d, failed %d, stable_pass %d, stable_pass not passing now: %d' % (len(ok), len(fail), len(sp), len(missing)))
for m in missing: print('  MISSING', m)
newfail = sorted(fail - set(b.get('always_fail', [])))
for m in newfail: print('  NEW FAIL', m)
sys.exit(1 if missing else 0)
