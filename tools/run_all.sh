#!/bin/bash
# usage: tools/run_all.sh <tier> <seed>...   -- runs every registered check, prints one line per check + any VIOLATION/BROKEN
tier=$1; shift
cd "$(dirname "$0")/.."
for seed in "$@"; do
  for p in $(python3 -c "import json;print(' '.join(c['property_id'] for c in json.load(open('MANIFEST.json'))['checks']))"); do
    ./check $p --tier $tier --seed $seed 2>&1 | grep "^VIOL\|^C[0-9][0-9] tier\|BROKEN\|signature:" | head -12
  done
done
