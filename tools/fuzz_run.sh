#!/bin/bash
# Development tool (not a registered check): run a libFuzzer target of harness/fuzz.
# usage: tools/fuzz_run.sh <text|bin|map> <workdir> <seconds> <forks> [extra libFuzzer args]   (build first: tools/fuzz_build.sh)
t=$1; w=$2; secs=$3; forks=$4; shift 4
mkdir -p $w/$t/corpus $w/$t/crashes
extra=""; [ $t = text ] && extra="-dict=/verif/tools/fuzz_dict.txt"; [ $t = map ] && extra="-dict=/verif/tools/fuzz_dict_map.txt"
cd /verif/harness
RUST_BACKTRACE=0 exec /verif/target/fuzz/x86_64-unknown-linux-gnu/release/fz_$t $w/$t/corpus $w/seeds/$t -fork=$forks -ignore_crashes=1 -ignore_timeouts=1 -ignore_ooms=1 \
  -detect_leaks=0 -timeout=10 -rss_limit_mb=3000 -malloc_limit_mb=512 -max_len=8192 -max_total_time=$secs -artifact_prefix=$w/$t/crashes/ $extra "$@" > $w/$t/log 2>&1
