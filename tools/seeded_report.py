#!/usr/bin/env python3
"""Summarise /verif/seeded/*/meta.json into seeded/REPORT.md (which checks catch which seeded changes)."""
import json, glob, os
V = os.path.dirname(os.path.dirname(os.path.abspath(__file__)))
rows = []
for d in sorted(glob.glob(os.path.join(V, 'seeded', '*', ''))):
    m = json.load(open(os.path.join(d, 'meta.json')))
    name = os.path.basename(os.path.dirname(d))
    target = __import__('re').sub(r'^(R\d|X)', 'C' if name.startswith('X') else '', name.split('-')[0])
    fe = m.get('first_evaluation')
    caught = m.get('caught_by', [])
    sigs = []
    for k, v in m.get('checks', {}).items():
        if k.startswith(target + '/') and v.get('signatures'): sigs = v['signatures'][:2]; break
    rows.append((name, target, m.get('summary', '').replace('\n', ' ').replace('|', '/')[:170], m.get('trigger', '').replace('\n', ' ').replace('|', '/')[:150],
                 ('yes' if target in fe['caught_by'] else 'no') if fe else '', 'yes' if target in caught else 'NO', ', '.join(c for c in caught if c != target) or '-', '; '.join(s.replace('|', '/')[:70] for s in sigs)))
out = ['# Seeded breaking changes and the checks that catch them', '',
       'Each change was produced by a sub-agent that saw only the property text, compiles, passes the 492 stable tests (confirmed in a scratch worktree: `confirm/`),',
       'and was applied to /repo only for the duration of the run (`tools/seeded_eval.py`) or to a scratch worktree of /repo HEAD (`tools/seeded_scratch.py`). Quick tier.\n'
       '`caught at first evaluation` = by the checks as they were before the change was used to strengthen them (own check, seeds 1-3); X* changes were written by hand.', '',
       '| change | what was changed | needs | caught at first evaluation | caught by its own check now | also caught by | first signatures |', '|---|---|---|---|---|---|---|']
for r in rows: out.append('| %s | %s | %s | %s | %s | %s | %s |' % (r[0], r[2], r[3], r[4], r[5], r[6], r[7]))
n = len(rows); c = sum(1 for r in rows if r[5] == 'yes')
out += ['', '%d of %d seeded changes are caught by the check of the property they were written against (quick tier).' % (c, n)]
open(os.path.join(V, 'seeded', 'REPORT.md'), 'w').write('\n'.join(out) + '\n')
print('\n'.join(out[-1:]))
