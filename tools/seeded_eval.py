#!/usr/bin/env python3
"""Run the registered checks against a seeded breaking change.
usage: tools/seeded_eval.py <seeded dir with patch.diff + meta.json> [--only C01,C02] [--seeds 1,2] [--tier quick]
Applies the patch to /repo's working tree, runs the checks, undoes the patch, and records the result in meta.json ("checks")."""
import json, os, re, subprocess, sys
V = '/verif'
def sh(*a, **kw): return subprocess.run(a, capture_output=True, text=True, **kw)
def main():
    d = os.path.abspath(sys.argv[1])
    only = None; seeds = ['1']; tier = 'quick'
    for i, a in enumerate(sys.argv):
        if a == '--only': only = sys.argv[i + 1].split(',')
        if a == '--seeds': seeds = sys.argv[i + 1].split(',')
        if a == '--tier': tier = sys.argv[i + 1]
    if sh('git', '-C', '/repo', 'status', '--porcelain', '--untracked-files=no').stdout.strip():
        print('refusing: /repo working tree is not clean'); return 2
    meta = json.load(open(os.path.join(d, 'meta.json')))
    r = sh('git', '-C', '/repo', 'apply', os.path.join(d, 'patch.diff'))
    if r.returncode: print('patch does not apply:', r.stderr); return 2
    results = meta.setdefault('checks', {})
    try:
        props = only or [c['property_id'] for c in json.load(open(V + '/MANIFEST.json'))['checks']]
        for p in props:
            for seed in seeds:
                r = sh('./check', p, '--tier', tier, '--seed', seed, cwd=V)
                sigs = re.findall(r'^\s+signature: (.*)$', r.stdout, flags=re.M)
                viol = re.findall(r'^VIOLATION property=(\S+)', r.stdout, flags=re.M)
                broken = r.returncode == 2
                key = '%s/%s/seed%s' % (p, tier, seed)
                results[key] = {'exit': r.returncode, 'violations': len(viol), 'signatures': sigs[:8], 'broken': broken}
                line = [l for l in r.stdout.splitlines() if ' tier=' in l]
                print(key, 'exit', r.returncode, 'violations', len(viol), sigs[:3], ('BROKEN: ' + r.stdout[-300:]) if broken else '', flush=True)
                if viol: break      # caught; no need for more seeds
    finally:
        sh('git', '-C', '/repo', 'checkout', '--', '.')
        left = sh('git', '-C', '/repo', 'status', '--porcelain', '--untracked-files=no').stdout.strip()
        if left: print('WARNING: /repo not clean after undo:', left)
    meta['caught_by'] = sorted({k.split('/')[0] for k, v in results.items() if v['violations']})
    json.dump(meta, open(os.path.join(d, 'meta.json'), 'w'), indent=1)
    print('caught by:', meta['caught_by'])
    return 0
sys.exit(main())
