#!/bin/bash
# cross-evaluation restricted to: own check + the broad checks
cd "$(dirname "$0")/.."
for d in "$@"; do
  p=$(basename $d); p=${p%-*}; p=${p#R2}
  echo "=== $d"
  tools/seeded_eval.py $d --seeds 1 --only $p,C01,C02,C04,C09,C16 2>&1 | tail -1
done
python3 tools/seeded_report.py
