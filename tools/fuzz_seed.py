#!/usr/bin/env python3
"""Development tool: write libFuzzer seed corpora for harness/fuzz (fz_text, fz_bin) from the seeded generators.
usage: tools/fuzz_seed.py <outdir> [n_per_entry]     -> <outdir>/text/*, <outdir>/bin/*"""
import os, sys, hashlib
sys.path.insert(0, os.path.dirname(os.path.dirname(os.path.abspath(__file__))))
from vlib import core, formats, corpus
def main():
    out = sys.argv[1]; n = int(sys.argv[2]) if len(sys.argv) > 2 else 12
    os.makedirs(out + '/text', exist_ok=True); os.makedirs(out + '/bin', exist_ok=True)
    core.build('dev')
    ctx = core.Ctx('FZ', 'quick', 1, 0, 1, 'dev')
    try:
        table = ctx.call({'op': 'fuzz_table'})['table']
        tables = formats.SigTables(ctx)
        gens = {('anm', ''): formats.gen_anm, ('std', ''): formats.gen_std, ('msg', ''): formats.gen_msg, ('msg', 'ending'): lambda r, g, t: formats.gen_msg(r, g, t, ending=True),
                ('msg', 'mission'): formats.gen_mission, ('ecl', ''): formats.gen_ecl}
        nt = nb = 0
        for idx, e in enumerate(table):
            g = gens.get((e['tool'], e['msg_mode']))
            if g is None or (e['tool'] == 'ecl' and e['game'] not in formats.ECL_GAMES): continue
            for k in range(n):
                gf = g(ctx.rng, e['game'], tables)
                data = bytes([idx]) + gf.text.encode('utf-8')
                open('%s/text/%s' % (out, hashlib.md5(data).hexdigest()[:12]), 'wb').write(data); nt += 1
                src = ctx.write('gen.txt', gf.text); outp = os.path.join(ctx.dir, 'gen.bin')
                if os.path.exists(outp): os.unlink(outp)
                resp = ctx.cli(gf.compile_job(src, outp))
                if resp.get('ok') and os.path.exists(outp):
                    b = open(outp, 'rb').read()
                    if len(b) < 6000:
                        data = bytes([idx, ctx.rng.randrange(32)]) + b
                        open('%s/bin/%s' % (out, hashlib.md5(data).hexdigest()[:12]), 'wb').write(data); nb += 1
        for b in corpus.bundled():
            for idx, e in enumerate(table):
                if e['tool'] == b['tool'] and e['game'] == b['game'] and (e['msg_mode'] or None) == b.get('msg_mode') and len(b['data']) < 20000:
                    data = bytes([idx, 0]) + b['data']
                    open('%s/bin/%s' % (out, hashlib.md5(data).hexdigest()[:12]), 'wb').write(data); nb += 1
        print('wrote', nt, 'text seeds,', nb, 'binary seeds')
    finally:
        ctx.finish()
main()
