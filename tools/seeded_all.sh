#!/bin/bash
# Run every registered check (quick, seed 1) against every seeded change; results are recorded in each meta.json.
cd "$(dirname "$0")/.."
for d in seeded/*/; do
  echo "=== $d"
  tools/seeded_eval.py $d --seeds 1 2>&1 | tail -1
done
python3 tools/seeded_report.py
