//! C08: format -> parse -> format round trip, with a canonical AST serialisation that ignores
//! spans, node/res/loop ids and integer display hints, folds `-<literal>` and compares floats by bits.
use std::fmt::Debug;
use serde_json::{json, Value};
use truth::{ast, Truth};
use truth::ast::{Visitable, VisitMut};
use crate::mon;

struct Canon { float_bits: Vec<u32> }
impl VisitMut for Canon {
    fn visit_expr(&mut self, e: &mut truth::Sp<ast::Expr>) {
        ast::walk_expr_mut(self, e);
        // fold -<literal>
        let folded = match &e.value {
            ast::Expr::UnOp(op, x) if op.value == ast::UnOpKind::Neg => match &x.value {
                ast::Expr::LitInt { value, .. } => Some(ast::Expr::LitInt { value: value.wrapping_neg(), format: ast::IntFormat::SIGNED }),
                ast::Expr::LitFloat { value } => Some(ast::Expr::LitFloat { value: -*value }),
                _ => None,
            },
            _ => None,
        };
        if let Some(f) = folded {
            // the float inside was already recorded by the walk; replace its record with the negated bits
            if let ast::Expr::LitFloat { value } = &f { self.float_bits.pop(); self.float_bits.push(value.to_bits()); return e.value = f; }
            e.value = f;
            return;
        }
        // the formatter spells some literals as the builtin consts INF / NAN / true / false
        if let ast::Expr::Var(var) = &e.value {
            if var.ty_sigil.is_none() {
                if let ast::VarName::Normal { ident, .. } = &var.name {
                    let lit = match ident.as_raw().to_string().as_str() {
                        "INF" => Some(ast::Expr::LitFloat { value: f32::INFINITY }),
                        "NAN" => Some(ast::Expr::LitFloat { value: f32::from_bits(0x7fc00000) }),
                        "true" => Some(ast::Expr::LitInt { value: 1, format: ast::IntFormat::SIGNED }),
                        "false" => Some(ast::Expr::LitInt { value: 0, format: ast::IntFormat::SIGNED }),
                        _ => None,
                    };
                    if let Some(lit) = lit { e.value = lit; }
                }
            }
        }
        match &mut e.value {
            ast::Expr::LitInt { format, .. } => *format = ast::IntFormat::SIGNED,
            ast::Expr::LitFloat { value } => self.float_bits.push(value.to_bits()),
            _ => {},
        }
    }
    fn visit_stmt(&mut self, s: &mut truth::Sp<ast::Stmt>) {
        s.offset_comment = None;
        if let ast::StmtKind::RelTimeLabel { _absolute_time_comment, .. } = &mut s.kind { *_absolute_time_comment = None; }
        ast::walk_stmt_mut(self, s);
    }
}

struct Folder;
impl VisitMut for Folder {
    fn visit_expr(&mut self, e: &mut truth::Sp<ast::Expr>) {
        ast::walk_expr_mut(self, e);
        use truth::ScalarValue as V;
        let lit = |x: &ast::Expr| match x { ast::Expr::LitInt { value, .. } => Some(V::Int(*value)), ast::Expr::LitFloat { value } => Some(V::Float(*value)), _ => None };
        let new = match &e.value {
            ast::Expr::UnOp(op, x) if matches!(op.value, ast::UnOpKind::Neg) => lit(&x.value).and_then(|v| op.const_eval(v)),
            ast::Expr::BinOp(a, op, b) => match (lit(&a.value), lit(&b.value)) {
                (Some(V::Int(x)), Some(V::Int(y))) if !op.is_const_division_by_zero(&V::Int(y)) => Some(op.const_eval(V::Int(x), V::Int(y))),
                (Some(V::Float(x)), Some(V::Float(y))) if matches!(op.class(), ast::OpClass::Arithmetic) => Some(op.const_eval(V::Float(x), V::Float(y))),
                _ => None,
            },
            _ => None,
        };
        if let Some(v) = new { e.value = v.into(); }
    }
}

pub fn canon<T: Visitable + Debug + Clone>(node: &T) -> (String, Vec<u32>) {
    let mut copy = node.clone();
    let mut c = Canon { float_bits: vec![] };
    copy.visit_mut_with(&mut c);
    let dbg = format!("{:?}", copy);
    (strip(&dbg), c.float_bits)
}

/// Remove spans and ids from a Debug rendering.
fn strip(s: &str) -> String {
    lazy_static::lazy_static! {
        static ref SPAN: regex::Regex = regex::Regex::new(r"sp!\(\d+\.\.\d+ => ").unwrap();
        static ref IDS: regex::Regex = regex::Regex::new(r"(NodeId|ResId|LoopId|DefId)\(\d+\)").unwrap();
        static ref OPT_IDS: regex::Regex = regex::Regex::new(r"(node_id|loop_id|res): Some\(\d+\)").unwrap();
        static ref RES_IDENT: regex::Regex = regex::Regex::new(r"Ident\(([^,()]*), \d+\)").unwrap();
        static ref NAN: regex::Regex = regex::Regex::new(r"-?NaN").unwrap();
    }
    let s = SPAN.replace_all(s, "sp!(");
    let s = IDS.replace_all(&s, "$1(_)");
    let s = OPT_IDS.replace_all(&s, "$1: _");
    let s = RES_IDENT.replace_all(&s, "Ident($1)");
    let s = NAN.replace_all(&s, "NaN");
    s.into_owned()
}

/// Integer display formats (hex / binary / bool spelling) are formatter hints that the parser does not keep;
/// idempotence of printing is judged modulo them.
fn norm_int_formats(t: &str) -> String {
    lazy_static::lazy_static! {
        static ref LIT: regex::Regex = regex::Regex::new(r#""(?:[^"\\]|\\.)*"|\b0[xX][0-9a-fA-F]+\b|\b0[bB][01]+\b|\btrue\b|\bfalse\b|\b[0-9]{10}\b"#).unwrap();
    }
    LIT.replace_all(t, |c: &regex::Captures| {
        let m = &c[0];
        if m.starts_with('"') { return m.to_string(); }
        if m == "true" { return "1".to_string(); }
        if m == "false" { return "0".to_string(); }
        if m.as_bytes()[0].is_ascii_digit() && !(m.len() > 1 && (m[1..2].eq_ignore_ascii_case("x") || m[1..2].eq_ignore_ascii_case("b"))) {
            // unsigned decimal spelling of a negative value
            return match m.parse::<u32>() { Ok(v) => (v as i32).to_string(), Err(_) => m.to_string() };
        }
        let (radix, digits) = if m[1..2].eq_ignore_ascii_case("x") { (16, &m[2..]) } else { (2, &m[2..]) };
        match u32::from_str_radix(digits, radix) { Ok(v) => (v as i32).to_string(), Err(_) => m.to_string() }
    }).into_owned()
}

fn first_diff(a: &str, b: &str) -> String {
    let i = a.bytes().zip(b.bytes()).position(|(x, y)| x != y).unwrap_or(a.len().min(b.len()));
    let lo = i.saturating_sub(120);
    let cut = |s: &str| { let mut lo = lo; while !s.is_char_boundary(lo) { lo -= 1; } let mut hi = (i + 120).min(s.len()); while !s.is_char_boundary(hi) { hi += 1; } s[lo..hi].to_string() };
    format!("at {}: <<{}>> vs <<{}>>", i, cut(a), cut(b))
}

fn rt_one<T>(truth: &mut Truth, x: &T, width: usize) -> Value
where T: Visitable + Debug + Clone + truth::Format + truth::parse::Parse, truth::Sp<T>: Visitable,
{
    let t = match mon::guarded(|| truth::fmt::stringify_with(x, truth::fmt::Config::new().max_columns(width))) {
        Ok(t) => t,
        Err(p) => return json!({"w": width, "status": "fmt_panic", "panic": mon::panic_json(&p)}),
    };
    let before = truth.get_captured_diagnostics().unwrap_or_default().len();
    let y = match mon::guarded(|| truth.parse::<T>("<formatted>", t.as_bytes())) {
        Err(p) => return json!({"w": width, "status": "parse_panic", "text": t, "panic": mon::panic_json(&p)}),
        Ok(Err(e)) => { e.ignore(); let d = truth.get_captured_diagnostics().unwrap_or_default(); return json!({"w": width, "status": "reparse_error", "text": t, "diag": d[before..].to_string()}); },
        Ok(Ok(y)) => y.value,
    };
    let ((cx, fx), (cy, fy)) = (canon(x), canon(&y));
    if cx != cy { return json!({"w": width, "status": "ast_differs", "text": t, "detail": first_diff(&cx, &cy)}); }
    if fx != fy {
        let pairs: Vec<Value> = fx.iter().zip(&fy).filter(|(a, b)| a != b).map(|(a, b)| json!([a, b])).collect();
        return json!({"w": width, "status": "float_bits_differ", "text": t, "pairs": pairs, "lens": [fx.len(), fy.len()]});
    }
    let t2 = match mon::guarded(|| truth::fmt::stringify_with(&y, truth::fmt::Config::new().max_columns(width))) {
        Ok(t) => t,
        Err(p) => return json!({"w": width, "status": "fmt_panic", "panic": mon::panic_json(&p)}),
    };
    if t2 != t {
        // Integer display formats (hex / binary / bool spelling) are formatter hints the parser does not keep: when the
        // first text used them, idempotence is judged from the re-parsed script on (t2 -> t3).
        let hinted = norm_int_formats(&t) != t;
        let t3 = match mon::guarded(|| truth.parse::<T>("<formatted2>", t2.as_bytes())) {
            Ok(Ok(z)) => truth::fmt::stringify_with(&z.value, truth::fmt::Config::new().max_columns(width)),
            _ => String::from("<reparse of second print failed>"),
        };
        if !hinted || t3 != t2 { return json!({"w": width, "status": "not_idempotent", "text": t, "text2": t2, "text3": t3}); }
    }
    let maxline = t.lines().map(|l| l.chars().count()).max().unwrap_or(0);
    json!({"w": width, "status": "ok", "len": t.len(), "lines": t.lines().count(), "maxline": maxline})
}

/// {"op":"fmt_rt","kind":"file|block|stmt|expr","text":..., "widths":[..], "simplify":bool, "build": <json expr>?}
pub fn fmt_rt(j: &Value) -> Result<Value, String> {
    let mut scope = truth::Builder::new().capture_diagnostics(true).build();
    let mut truth = scope.truth();
    let widths: Vec<usize> = j.get("widths").and_then(|x| x.as_array()).map(|a| a.iter().filter_map(|x| x.as_u64()).map(|x| x as usize).collect()).unwrap_or_else(|| vec![80]);
    let simplify = j.get("simplify").and_then(|x| x.as_bool()).unwrap_or(false);
    let want_text = j.get("want_text").and_then(|x| x.as_bool()).unwrap_or(false);
    macro_rules! go { ($ty:ty, $src:expr) => {{
        let mut x = match truth.parse::<$ty>("<input>", $src.as_bytes()) {
            Ok(x) => x.value,
            Err(e) => { e.ignore(); return Ok(json!({"stage": "parse", "ok": false, "diag": truth.get_captured_diagnostics().unwrap_or_default()})); }
        };
        if simplify {
            // fold operations on literals with truth's own operator tables (no name resolution needed):
            // this yields the negative / non-finite literals that only the decompiler can otherwise create
            x.visit_mut_with(&mut Folder);
        }
        if let Some(spec) = j.get("build") { install_built_exprs(&mut x, spec)?; }
        let res: Vec<Value> = widths.iter().map(|&w| rt_one(&mut truth, &x, w)).collect();
        let sample = if want_text { Value::String(truth::fmt::stringify_with(&x, truth::fmt::Config::new().max_columns(widths[0]))) } else { Value::Null };
        Ok(json!({"stage": "done", "ok": true, "results": res, "sample": sample}))
    }}}
    let text = j.get("text").and_then(|x| x.as_str()).ok_or("no text")?;
    match j.get("kind").and_then(|x| x.as_str()).unwrap_or("file") {
        "file" => go!(ast::ScriptFile, text),
        "block" => go!(ast::Block, text),
        k => Err(format!("bad kind {k}")),
    }
}

// ---------------------------------------------------------------------------------------------
// Direct construction of expression ASTs the parser cannot produce but the decompiler can
// (negative literals, literal formats, exotic floats).  Every call `__B(k)` in the parsed text
// (an integer literal k) is replaced by the k-th built expression.

struct Installer<'a> { exprs: &'a [ast::Expr], err: Option<String> }
impl VisitMut for Installer<'_> {
    fn visit_expr(&mut self, e: &mut truth::Sp<ast::Expr>) {
        ast::walk_expr_mut(self, e);
        if let ast::Expr::Call(call) = &e.value {
            if let ast::CallableName::Normal { ident, .. } = &call.name.value {
                if ident.as_raw().to_string() == "__B" {
                    if let Some(ast::Expr::LitInt { value, .. }) = call.args.get(0).map(|a| &a.value) {
                        match self.exprs.get(*value as usize) {
                            Some(x) => e.value = x.clone(),
                            None => self.err = Some(format!("no built expr {value}")),
                        }
                    }
                }
            }
        }
    }
}

fn install_built_exprs<T: Visitable>(x: &mut T, spec: &Value) -> Result<(), String> {
    let exprs: Vec<ast::Expr> = spec.as_array().ok_or("build must be an array")?.iter().map(build_expr).collect::<Result<_, _>>()?;
    let mut v = Installer { exprs: &exprs, err: None };
    x.visit_mut_with(&mut v);
    match v.err { Some(e) => Err(e), None => Ok(()) }
}

fn sp<T>(v: T) -> truth::Sp<T> { truth::sp!(v) }

fn build_expr(j: &Value) -> Result<ast::Expr, String> {
    let o = j.as_object().ok_or("expr spec must be an object")?;
    if let Some(v) = o.get("int") {
        let value = v.as_i64().ok_or("int")? as i32;
        let format = match o.get("fmt").and_then(|x| x.as_str()).unwrap_or("signed") {
            "unsigned" => ast::IntFormat::UNSIGNED, "hex" => ast::IntFormat::HEX, "bin" => ast::IntFormat::BIN,
            "bool" => ast::IntFormat::BOOL, "signed_hex" => ast::IntFormat::SIGNED_HEX, _ => ast::IntFormat::SIGNED,
        };
        return Ok(ast::Expr::LitInt { value, format });
    }
    if let Some(v) = o.get("fbits") { return Ok(ast::Expr::LitFloat { value: f32::from_bits(v.as_u64().ok_or("fbits")? as u32) }); }
    if let Some(v) = o.get("str") { return Ok(ast::Expr::LitString(ast::LitString { string: v.as_str().ok_or("str")?.to_string() })); }
    if let Some(v) = o.get("reg") {
        let sigil = match o.get("sigil").and_then(|x| x.as_str()) { Some("$") => Some(ast::VarSigil::Int), Some("%") => Some(ast::VarSigil::Float), _ => None };
        return Ok(ast::Expr::Var(sp(ast::Var { ty_sigil: sigil, name: ast::VarName::Reg { reg: truth::RegId(v.as_i64().ok_or("reg")? as i32), language: None } })));
    }
    if let Some(v) = o.get("un") {
        let a = v.as_array().ok_or("un")?;
        let op = match a[0].as_str().ok_or("un op")? {
            "-" => ast::UnOpKind::Neg, "!" => ast::UnOpKind::Not, "~" => ast::UnOpKind::BitNot,
            "sin" => ast::UnOpKind::Sin, "cos" => ast::UnOpKind::Cos, "sqrt" => ast::UnOpKind::Sqrt,
            "$" => ast::UnOpKind::EncodeI, "%" => ast::UnOpKind::EncodeF, "int" => ast::UnOpKind::CastI, "float" => ast::UnOpKind::CastF,
            x => return Err(format!("bad unop {x}")),
        };
        return Ok(ast::Expr::UnOp(sp(op), Box::new(sp(build_expr(&a[1])?))));
    }
    if let Some(v) = o.get("bin") {
        let a = v.as_array().ok_or("bin")?;
        use ast::BinOpKind as B;
        let op = match a[1].as_str().ok_or("bin op")? {
            "+" => B::Add, "-" => B::Sub, "*" => B::Mul, "/" => B::Div, "%" => B::Rem, "==" => B::Eq, "!=" => B::Ne,
            "<" => B::Lt, "<=" => B::Le, ">" => B::Gt, ">=" => B::Ge, "|" => B::BitOr, "^" => B::BitXor, "&" => B::BitAnd,
            "||" => B::LogicOr, "&&" => B::LogicAnd, "<<" => B::ShiftLeft, ">>" => B::ShiftRightSigned, ">>>" => B::ShiftRightUnsigned,
            x => return Err(format!("bad binop {x}")),
        };
        return Ok(ast::Expr::BinOp(Box::new(sp(build_expr(&a[0])?)), sp(op), Box::new(sp(build_expr(&a[2])?))));
    }
    if let Some(v) = o.get("tern") {
        let a = v.as_array().ok_or("tern")?;
        return Ok(ast::Expr::Ternary { cond: Box::new(sp(build_expr(&a[0])?)), question: sp(()), left: Box::new(sp(build_expr(&a[1])?)), colon: sp(()), right: Box::new(sp(build_expr(&a[2])?)) });
    }
    if let Some(v) = o.get("diff") {
        let a = v.as_array().ok_or("diff")?;
        let cases: Result<Vec<Option<truth::Sp<ast::Expr>>>, String> = a.iter().map(|c| if c.is_null() { Ok(None) } else { build_expr(c).map(|e| Some(sp(e))) }).collect();
        return Ok(ast::Expr::DiffSwitch(cases?.into_iter().collect()));
    }
    Err(format!("unknown expr spec {j}"))
}
