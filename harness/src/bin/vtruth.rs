//! The CLI under test: byte-for-byte the dispatch of `truth-core`.
fn main() {
    let mut args = std::env::args();
    let _ = args.next();
    truth::cli_def::truth_main("verif", &args.collect::<Vec<_>>());
}
