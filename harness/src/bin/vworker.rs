//! Observation server: reads one JSON request per line on stdin, executes the real truth code,
//! writes one JSON response per line on stdout.  The python driver keeps the request it sent
//! (call event) and pairs it with the response (return event); a worker death between the two
//! is an observed abort of that request.
use std::io::{BufRead, Write};
use serde_json::{json, Value};
use tverif::mon;

#[global_allocator]
static ALLOC: mon::CountingAlloc = mon::CountingAlloc;

fn dispatch(req: &Value) -> Result<Value, String> {
    match req.get("op").and_then(|x| x.as_str()).unwrap_or("") {
        "ping" => Ok(json!({"pong": true})),
        "cli" => tverif::ops_cli::run_cli(req),
        "vm_lower" => tverif::ops_api::vm_lower(req),
        "vm_desugar" => tverif::ops_api::vm_desugar(req),
        "vm_blocks" => tverif::ops_api::vm_blocks(req),
        "typeck" => tverif::ops_api::typeck(req),
        "resolve" => tverif::ops_api::resolve(req),
        "consteval" => tverif::ops_api::consteval(req),
        "diff_labels" => tverif::ops_api::diff_labels(req),
        "color_sweep" => tverif::ops_api::color_sweep(req),
        "fmt_rt" => tverif::canon::fmt_rt(req),
        "core_sigs" => tverif::ops_api::core_sigs(req),
        "fuzz_table" => Ok(json!({"table": tverif::fuzzsup::table_json(), "map_table": tverif::fuzzsup::map_table_json()})),
        op => Err(format!("unknown op {op}")),
    }
}

fn main() {
    std::env::remove_var("TRUTH_MAP_PATH");
    std::env::remove_var("_TRUTH_DEBUG__TEST");
    mon::install_panic_hook();
    let stdin = std::io::stdin();
    // truth prints to stdout in places (`extract`): keep the protocol channel private and send fd 1 to stderr
    let mut proto: std::fs::File = unsafe {
        use std::os::unix::io::FromRawFd;
        let fd = libc::dup(1);
        libc::dup2(2, 1);
        std::fs::File::from_raw_fd(fd)
    };
    for line in stdin.lock().lines() {
        let line = match line { Ok(l) => l, Err(_) => break };
        if line.trim().is_empty() { continue; }
        let req: Value = match serde_json::from_str(&line) {
            Ok(v) => v,
            Err(e) => { let _ = writeln!(proto, "{}", json!({"harness_error": format!("bad json: {e}")})); continue; }
        };
        let base = mon::mem_reset();
        let t0 = std::time::Instant::now();
        let r = mon::guarded(|| dispatch(&req));
        let ms = t0.elapsed().as_secs_f64() * 1000.0;
        let peak = mon::mem_peak().saturating_sub(base);
        let mut resp = match r {
            Ok(Ok(v)) => v,
            Ok(Err(e)) => json!({"harness_error": e}),
            Err(p) => json!({"panic": mon::panic_json(&p)}),
        };
        resp["id"] = req.get("id").cloned().unwrap_or(Value::Null);
        resp["peak"] = json!(peak);
        resp["biggest"] = json!(mon::mem_biggest());
        resp["ms"] = json!(ms);
        let _ = writeln!(proto, "{}", resp);
        let _ = proto.flush();
    }
}
