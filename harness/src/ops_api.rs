//! In-process API ops.  Each op runs real truth passes on text supplied by the driver and
//! reports observations (diagnostics, texts, VM traces / comparisons).  No expectations are
//! computed here except plain equality of two recorded traces.
use serde_json::{json, Value};
use truth::{ast, llir, vm::AstVm, Truth, ScalarValue, RegId, LanguageKey, Game};
use truth::llir::LanguageHooks;
use truth::passes;
use crate::mon;

fn s<'a>(j: &'a Value, k: &str) -> Option<&'a str> { j.get(k).and_then(|x| x.as_str()) }
fn b(j: &Value, k: &str, d: bool) -> bool { j.get(k).and_then(|x| x.as_bool()).unwrap_or(d) }
fn arr<'a>(j: &'a Value, k: &str) -> Vec<&'a Value> { j.get(k).and_then(|x| x.as_array()).map(|a| a.iter().collect()).unwrap_or_default() }
fn ints(j: &Value, k: &str) -> Vec<i32> { arr(j, k).iter().filter_map(|x| x.as_i64()).map(|x| x as i32).collect() }

fn lang_key(name: &str) -> LanguageKey {
    match name { "anm" => LanguageKey::Anm, "ecl" => LanguageKey::Ecl, "std" => LanguageKey::Std, "msg" => LanguageKey::Msg,
        "timeline" => LanguageKey::Timeline, "end" => LanguageKey::End, _ => LanguageKey::Dummy }
}

/// Language description: {"kind":"test","language":"anm","int_regs":[..],"float_regs":[..],"anti_scratch":99}
/// or {"kind":"anm","game":"th12"} / {"kind":"ecl","game":"th07"} (real hooks + core mapfile).
struct Lang { hooks: Box<dyn LanguageHooks>, key: LanguageKey, game: Game, core: bool }

fn make_lang(j: &Value) -> Result<Lang, String> {
    let l = j.get("lang").ok_or("no lang")?;
    match s(l, "kind").unwrap_or("test") {
        "test" => {
            let mut t = llir::TestLanguage::default();
            t.language = lang_key(s(l, "language").unwrap_or("anm"));
            t.general_use_int_regs = ints(l, "int_regs").into_iter().map(RegId).collect();
            t.general_use_float_regs = ints(l, "float_regs").into_iter().map(RegId).collect();
            t.anti_scratch_opcode = l.get("anti_scratch").and_then(|x| x.as_u64()).map(|x| x as u16);
            let key = t.language;
            let game = crate::ops_cli::parse_game(s(l, "game").unwrap_or("th10"))?;
            Ok(Lang { hooks: Box::new(t), key, game, core: false })
        },
        "anm" => {
            let game = crate::ops_cli::parse_game(s(l, "game").ok_or("no game")?)?;
            Ok(Lang { hooks: truth::verif_hooks::anm_language_hooks(game), key: LanguageKey::Anm, game, core: true })
        },
        "ecl" => {
            let game = crate::ops_cli::parse_game(s(l, "game").ok_or("no game")?)?;
            Ok(Lang { hooks: truth::verif_hooks::olde_ecl_language_hooks(game), key: LanguageKey::Ecl, game, core: true })
        },
        k => Err(format!("bad lang kind {k}")),
    }
}

fn setup_mapfiles(truth: &mut Truth, lang: &Lang, j: &Value) -> Result<(), truth::ErrorReported> {
    if lang.core {
        let core = truth::verif_hooks::core_mapfile(truth.ctx().emitter, lang.game, lang.key);
        truth.apply_mapfile(&core, lang.game)?;
    }
    for m in arr(j, "mapfiles") {
        if let Some(text) = m.as_str() { truth.apply_mapfile_str(text, lang.game)?; }
    }
    if let Some(text) = s(j, "mapfile") { truth.apply_mapfile_str(text, lang.game)?; }
    Ok(())
}

fn scalar_json(v: &ScalarValue) -> Value {
    match v {
        ScalarValue::Int(i) => json!({"i": i}),
        ScalarValue::Float(f) => json!({"f": f.to_bits()}),
        ScalarValue::String(s) => json!({"s": s}),
    }
}
fn scalar_from(v: &Value) -> Option<ScalarValue> {
    if let Some(i) = v.get("i").and_then(|x| x.as_i64()) { return Some(ScalarValue::Int(i as i32)); }
    if let Some(f) = v.get("f").and_then(|x| x.as_u64()) { return Some(ScalarValue::Float(f32::from_bits(f as u32))); }
    None
}
fn same_value(a: &Option<ScalarValue>, b: &Option<ScalarValue>) -> bool {
    match (a, b) {
        (Some(ScalarValue::Float(x)), Some(ScalarValue::Float(y))) => x.to_bits() == y.to_bits(),
        (x, y) => x == y,
    }
}

/// A state: {"regs": {"1000": {"i": 3}, ...}}
fn make_vm(state: &Value, difficulty: u32, max_iter: u32) -> AstVm {
    let mut vm = AstVm::new().with_max_iterations(max_iter).with_difficulty(difficulty);
    if let Some(regs) = state.get("regs").and_then(|x| x.as_object()) {
        for (k, v) in regs {
            if let (Ok(r), Some(val)) = (k.parse::<i32>(), scalar_from(v)) { vm.set_reg(RegId(r), val); }
        }
    }
    vm
}

struct Trace { time: i32, real_time: i32, log: Vec<(i32, u16, Vec<ScalarValue>)>, regs: Vec<Option<ScalarValue>> }

fn run_vm(stmts: &[truth::Sp<ast::Stmt>], truth: &mut Truth, state: &Value, d: u32, max_iter: u32, check_regs: &[i32]) -> Result<Trace, mon::PanicRecord> {
    let ctx = truth.ctx();
    mon::guarded(|| {
        let mut vm = make_vm(state, d, max_iter);
        vm.run(stmts, ctx);
        Trace {
            time: vm.time, real_time: vm.real_time,
            log: vm.instr_log.iter().map(|c| (c.real_time, c.opcode, c.args.clone())).collect(),
            regs: check_regs.iter().map(|&r| vm.get_reg(RegId(r))).collect(),
        }
    })
}

fn log_json(t: &Trace) -> Value {
    json!({"time": t.time, "real_time": t.real_time,
           "log": t.log.iter().map(|(rt, op, args)| json!([rt, op, args.iter().map(scalar_json).collect::<Vec<_>>()])).collect::<Vec<_>>(),
           "regs": t.regs.iter().map(|r| r.as_ref().map(scalar_json)).collect::<Vec<_>>()})
}

fn has_nan(t: &Trace) -> bool {
    let isnan = |v: &ScalarValue| matches!(v, ScalarValue::Float(f) if f.is_nan());
    t.log.iter().any(|(_, _, a)| a.iter().any(isnan)) || t.regs.iter().any(|r| r.as_ref().map(isnan).unwrap_or(false))
}

fn compare(a: &Trace, b: &Trace, check_regs: &[i32], compare_time: bool) -> Option<String> {
    if compare_time && a.time != b.time { return Some(format!("time {} vs {}", a.time, b.time)); }
    if compare_time && a.real_time != b.real_time { return Some(format!("real_time {} vs {}", a.real_time, b.real_time)); }
    if a.log.len() != b.log.len() { return Some(format!("log length {} vs {}", a.log.len(), b.log.len())); }
    for (i, (x, y)) in a.log.iter().zip(&b.log).enumerate() {
        let same_args = x.2.len() == y.2.len() && x.2.iter().zip(&y.2).all(|(p, q)| same_value(&Some(p.clone()), &Some(q.clone())));
        if x.0 != y.0 || x.1 != y.1 || !same_args { return Some(format!("log[{}]: {:?} vs {:?}", i, x, y)); }
    }
    for (i, &r) in check_regs.iter().enumerate() {
        if !same_value(&a.regs[i], &b.regs[i]) { return Some(format!("reg {}: {:?} vs {:?}", r, a.regs[i], b.regs[i])); }
    }
    None
}

/// Compare two statement lists under all (state, difficulty) pairs; the first is the "source side".
fn differential(truth: &mut Truth, old: &[truth::Sp<ast::Stmt>], new: &[truth::Sp<ast::Stmt>], j: &Value) -> Value {
    let states = arr(j, "states");
    let diffs: Vec<u32> = { let d = ints(j, "difficulties"); if d.is_empty() { vec![0] } else { d.into_iter().map(|x| x as u32).collect() } };
    let max_iter = j.get("max_iter").and_then(|x| x.as_u64()).unwrap_or(4000) as u32;
    let check_regs = ints(j, "check_regs");
    let mut runs = vec![];
    let want_trace = b(j, "want_trace", false);
    let compare_time = b(j, "compare_time", false);
    for (si, st) in states.iter().enumerate() {
        for &d in &diffs {
            let a = run_vm(old, truth, st, d, max_iter, &check_regs);
            let a = match a { Ok(a) => a, Err(p) => { runs.push(json!({"s": si, "d": d, "status": "src_panic", "msg": p.msg})); continue; } };
            if has_nan(&a) { runs.push(json!({"s": si, "d": d, "status": "src_nan"})); continue; }
            let bb = run_vm(new, truth, st, d, max_iter.saturating_mul(8), &check_regs);  // the transformed form executes more (label/jump) statements
            match bb {
                Err(p) => runs.push(json!({"s": si, "d": d, "status": "new_panic", "msg": p.msg, "site": p.site})),
                Ok(bt) => match compare(&a, &bt, &check_regs, compare_time) {
                    None => {
                        let mut r = json!({"s": si, "d": d, "status": "eq", "calls": a.log.len(), "time": a.time});
                        if want_trace { r["trace"] = log_json(&a); }
                        runs.push(r)
                    },
                    Some(detail) => runs.push(json!({"s": si, "d": d, "status": "diff", "detail": detail, "old": log_json(&a), "new": log_json(&bt)})),
                },
            }
        }
    }
    Value::Array(runs)
}

fn new_truth_scope() -> truth::Scope { truth::Builder::new().capture_diagnostics(true).build() }

macro_rules! stage {
    ($truth:expr, $name:expr, $e:expr) => {
        match $e {
            Ok(v) => v,
            Err(e) => { let e: truth::ErrorReported = e; e.ignore();
                return Ok(json!({"stage": $name, "ok": false, "diag": $truth.get_captured_diagnostics().unwrap_or_default()})); }
        }
    };
}

/// Front half shared by the VM ops: parse a block and run the passes up to (not including) desugaring.
fn front(truth: &mut Truth, lang: &Lang, text: &str, presimplify: bool) -> Result<ast::Block, (String, truth::ErrorReported)> {
    let key = lang.key;
    let mut block = truth.parse::<ast::Block>("<input>", text.as_bytes()).map_err(|e| ("parse".to_string(), e))?.value;
    let ctx = truth.ctx();
    passes::resolution::assign_languages(&mut block, key, ctx).map_err(|e| ("assign_languages".to_string(), e))?;
    passes::resolution::resolve_names(&block, ctx).map_err(|e| ("resolve".to_string(), e))?;
    passes::type_check::run(&block, ctx).map_err(|e| ("typecheck".to_string(), e))?;
    if presimplify {
        passes::evaluate_const_vars::run(ctx).map_err(|e| ("constvars".to_string(), e))?;
        passes::const_simplify::run(&mut block, ctx).map_err(|e| ("simplify".to_string(), e))?;
    }
    // as the real formats do (e.g. ecl_06.rs: label masks first, then validation): reject mismatched switch lengths, warn about labels on blocks
    passes::resolution::compute_diff_label_masks(&mut block, ctx).map_err(|e| ("diff_masks".to_string(), e))?;
    passes::validate_difficulty::run(&block, ctx, &*lang.hooks).map_err(|e| ("validate_difficulty".to_string(), e))?;
    passes::resolution::aliases_to_raw(&mut block, ctx).map_err(|e| ("aliases_to_raw".to_string(), e))?;
    Ok(block)
}

macro_rules! front_or_return {
    ($truth:expr, $key:expr, $text:expr, $pre:expr) => {
        match front(&mut $truth, $key, $text, $pre) {
            Ok(b) => b,
            Err((st, e)) => { e.ignore(); return Ok(json!({"stage": st, "ok": false, "diag": $truth.get_captured_diagnostics().unwrap_or_default()})); }
        }
    };
}

fn lower_block(truth: &mut Truth, hooks: &dyn LanguageHooks, stmts: &[truth::Sp<ast::Stmt>]) -> Result<Vec<llir::RawInstr>, truth::ErrorReported> {
    let ctx = truth.ctx();
    let mut errors = truth::error::ErrorFlag::new();
    let mut lowerer = llir::Lowerer::new(hooks);
    let (instrs, _) = lowerer.lower_sub(stmts, None, ctx, false).unwrap_or_else(|e| { errors.set(e); (vec![], None) });
    lowerer.finish(ctx).unwrap_or_else(|e| errors.set(e));
    errors.into_result(())?;
    Ok(instrs)
}

fn raise_block(truth: &mut Truth, hooks: &dyn LanguageHooks, instrs: Vec<llir::RawInstr>, options: &truth::DecompileOptions, postprocess: bool) -> Result<ast::Block, truth::ErrorReported> {
    let emitter = truth.emitter();
    let ctx = truth.ctx();
    let script = llir::RawScript { instrs, file_offset: None };
    let const_proof = passes::evaluate_const_vars::run(ctx)?;
    let mut raiser = llir::Raiser::new(hooks, ctx.emitter, ctx, options, const_proof)?;
    let stmts = raiser.raise_instrs_to_sub_ast(&emitter, &script, &ctx)?;
    let mut block = ast::Block(stmts);
    if postprocess {
        passes::postprocess_decompiled(&mut block, ctx, options)?;
    }
    Ok(block)
}

fn instrs_json(instrs: &[llir::RawInstr]) -> Value {
    Value::Array(instrs.iter().map(|i| json!({
        "time": i.time, "opcode": i.opcode, "mask": i.param_mask, "blob": hex(&i.args_blob),
        "diff": i.difficulty, "extra": i.extra_arg, "pop": i.pop,
    })).collect())
}
fn hex(b: &[u8]) -> String { b.iter().map(|x| format!("{:02x}", x)).collect() }

/// C02 / C05: lowering preserves behaviour; register allocation events.
pub fn vm_lower(j: &Value) -> Result<Value, String> {
    let lang = make_lang(j)?;
    let mut scope = new_truth_scope();
    let mut truth = scope.truth();
    let _ = truth::verif_hooks::take_reg_events();
    stage!(truth, "mapfile", setup_mapfiles(&mut truth, &lang, j));
    let text = s(j, "body").ok_or("no body")?;
    let mut block = front_or_return!(truth, &lang, text, b(j, "presimplify", false));
    stage!(truth, "desugar", passes::desugar_blocks::run(&mut block, truth.ctx(), lang.key));
    let front_diag = truth.get_captured_diagnostics().unwrap_or_default();
    let old = block.0;
    let lowered = lower_block(&mut truth, &*lang.hooks, &old);
    let evs: Vec<Value> = truth::verif_hooks::take_reg_events().iter().map(crate::ops_cli::reg_event_json).collect();
    let instrs = match lowered {
        Ok(i) => i,
        Err(e) => { e.ignore(); return Ok(json!({"stage": "lower", "ok": false, "diag": truth.get_captured_diagnostics().unwrap_or_default(), "reg_events": evs})); }
    };
    let instrs_js = instrs_json(&instrs);
    let options = truth::DecompileOptions::default();
    let mut new_block = stage!(truth, "raise", raise_block(&mut truth, &*lang.hooks, instrs, &options, false));
    stage!(truth, "raise_aliases", passes::resolution::aliases_to_raw(&mut new_block, truth.ctx()));
    let new_text = truth::fmt::stringify(&new_block);
    let diag = truth.get_captured_diagnostics().unwrap_or_default();
    let runs = differential(&mut truth, &old, &new_block.0, j);
    if b(j, "want_debug", false) {
        return Ok(json!({"stage": "done", "ok": true, "new_debug": format!("{:#?}", new_block), "runs": runs}));
    }
    Ok(json!({"stage": "done", "ok": true, "diag": diag, "front_diag": front_diag, "new_text": new_text, "reg_events": evs, "instrs": instrs_js, "runs": runs}))
}

/// C06: desugar_blocks preserves behaviour.
pub fn vm_desugar(j: &Value) -> Result<Value, String> {
    let lang = make_lang(j)?;
    let mut scope = new_truth_scope();
    let mut truth = scope.truth();
    stage!(truth, "mapfile", setup_mapfiles(&mut truth, &lang, j));
    let text = s(j, "body").ok_or("no body")?;
    let before = front_or_return!(truth, &lang, text, false);
    let mut after = before.clone();
    stage!(truth, "desugar", passes::desugar_blocks::run(&mut after, truth.ctx(), lang.key));
    let after_text = truth::fmt::stringify(&after);
    let diag = truth.get_captured_diagnostics().unwrap_or_default();
    let runs = differential(&mut truth, &before.0, &after.0, j);
    Ok(json!({"stage": "done", "ok": true, "diag": diag, "after_text": after_text, "runs": runs}))
}

/// C07: block recovery while decompiling preserves behaviour.
/// The body is a flat label/goto program; it is lowered to instructions I, then raised twice.
pub fn vm_blocks(j: &Value) -> Result<Value, String> {
    let lang = make_lang(j)?;
    let mut scope = new_truth_scope();
    let mut truth = scope.truth();
    stage!(truth, "mapfile", setup_mapfiles(&mut truth, &lang, j));
    let text = s(j, "body").ok_or("no body")?;
    let mut block = front_or_return!(truth, &lang, text, true);
    stage!(truth, "desugar", passes::desugar_blocks::run(&mut block, truth.ctx(), lang.key));
    let instrs = stage!(truth, "lower", lower_block(&mut truth, &*lang.hooks, &block.0));
    let compile_diag = truth.get_captured_diagnostics().unwrap_or_default();
    let mut off = truth::DecompileOptions::default(); off.blocks = false;
    let on = truth::DecompileOptions::default();
    let mut a0 = stage!(truth, "raise_flat", raise_block(&mut truth, &*lang.hooks, instrs.clone(), &off, true));
    let mut a1 = stage!(truth, "raise_blocks", raise_block(&mut truth, &*lang.hooks, instrs.clone(), &on, true));
    let t0 = truth::fmt::stringify(&a0);
    let t1 = truth::fmt::stringify(&a1);
    let diag = truth.get_captured_diagnostics().unwrap_or_default();
    // re-lower both the way a recompile would: through their printed text
    let mut relower = |truth: &mut Truth, text: &str| -> Result<Vec<llir::RawInstr>, truth::ErrorReported> {
        let mut blk = front(truth, &lang, text, true).map_err(|(_, e)| e)?;
        passes::desugar_blocks::run(&mut blk, truth.ctx(), lang.key)?;
        lower_block(truth, &*lang.hooks, &blk.0)
    };
    let l0 = relower(&mut truth, &t0);
    let l1 = relower(&mut truth, &t1);
    let relower_diag = truth.get_captured_diagnostics().unwrap_or_default();
    let orig = instrs_json(&instrs);
    let (l0j, l0ok) = match l0 { Ok(i) => (instrs_json(&i), true), Err(e) => { e.ignore(); (Value::Null, false) } };
    let (l1j, l1ok) = match l1 { Ok(i) => (instrs_json(&i), true), Err(e) => { e.ignore(); (Value::Null, false) } };
    // VM comparison.  AstVm cannot jump into nested blocks; the driver asks for the desugared variant then.
    stage!(truth, "vm_prep0", passes::resolution::aliases_to_raw(&mut a0, truth.ctx()));
    stage!(truth, "vm_prep1", passes::resolution::aliases_to_raw(&mut a1, truth.ctx()));
    stage!(truth, "vm_prep0m", passes::resolution::compute_diff_label_masks(&mut a0, truth.ctx()));
    stage!(truth, "vm_prep1m", passes::resolution::compute_diff_label_masks(&mut a1, truth.ctx()));
    let mut a1d = a1.clone();
    let mut via_desugar = false;
    let runs = differential(&mut truth, &a0.0, &a1.0, j);
    let needs_desugar = runs.as_array().map(|r| r.iter().any(|x| x["status"] == "new_panic" && x["msg"].as_str().map(|m| m.contains("inner scopes")).unwrap_or(false))).unwrap_or(false);
    let runs = if needs_desugar {
        via_desugar = true;
        stage!(truth, "vm_desugar", passes::desugar_blocks::run(&mut a1d, truth.ctx(), lang.key));
        differential(&mut truth, &a0.0, &a1d.0, j)
    } else { runs };
    Ok(json!({"stage": "done", "ok": true, "compile_diag": compile_diag, "diag": diag, "relower_diag": relower_diag,
        "flat_text": t0, "block_text": t1, "orig": orig, "relower_flat": l0j, "relower_blocks": l1j,
        "relower_flat_ok": l0ok, "relower_blocks_ok": l1ok, "via_desugar": via_desugar, "runs": runs}))
}

/// C09: type checker verdict (+ static-vs-dynamic type of every top-level assignment RHS subexpression).
pub fn typeck(j: &Value) -> Result<Value, String> {
    let lang = make_lang(j)?;
    let mut scope = new_truth_scope();
    let mut truth = scope.truth();
    stage!(truth, "mapfile", setup_mapfiles(&mut truth, &lang, j));
    let text = s(j, "body").ok_or("no body")?;
    let mut block = stage!(truth, "parse", truth.parse::<ast::Block>("<input>", text.as_bytes())).value;
    stage!(truth, "assign_languages", passes::resolution::assign_languages(&mut block, lang.key, truth.ctx()));
    stage!(truth, "resolve", passes::resolution::resolve_names(&block, truth.ctx()));
    let r = passes::type_check::run(&block, truth.ctx());
    let diag = truth.get_captured_diagnostics().unwrap_or_default();
    let accepted = match r { Ok(()) => true, Err(e) => { e.ignore(); false } };
    let mut dyn_checks = vec![];
    if accepted && b(j, "dynamic", false) {
        // evaluate every subexpression of every assignment RHS in the top-level block
        stage!(truth, "aliases_to_raw", passes::resolution::aliases_to_raw(&mut block, truth.ctx()));
        let state = j.get("state").cloned().unwrap_or(json!({}));
        for stmt in &block.0 {
            if let ast::StmtKind::Assignment { value, .. } = &stmt.kind {
                let mut subs = vec![];
                collect_subexprs(value, &mut subs);
                for e in subs {
                    let ctx = truth.ctx();
                    let stat = mon::guarded(|| e.compute_ty(ctx));
                    let dynv = mon::guarded(|| { let mut vm = make_vm(&state, 0, 1000); vm.eval(e, &ctx.resolutions) });
                    let text = truth::fmt::stringify(e);
                    dyn_checks.push(json!({
                        "expr": text,
                        "static": stat.as_ref().map(|t| format!("{:?}", t)).unwrap_or_else(|p| format!("PANIC {}", p.msg)),
                        "dynamic": dynv.as_ref().map(|v| format!("Value({:?})", v.ty())).unwrap_or_else(|p| format!("PANIC {}", p.msg)),
                    }));
                }
            }
        }
    }
    Ok(json!({"stage": "done", "ok": true, "accepted": accepted, "diag": diag, "dyn": dyn_checks}))
}

fn collect_subexprs<'a>(e: &'a truth::Sp<ast::Expr>, out: &mut Vec<&'a truth::Sp<ast::Expr>>) {
    match &e.value {
        ast::Expr::BinOp(a, _, b) => { collect_subexprs(a, out); collect_subexprs(b, out); },
        ast::Expr::UnOp(_, x) => collect_subexprs(x, out),
        ast::Expr::Ternary { cond, left, right, .. } => { collect_subexprs(cond, out); collect_subexprs(left, out); collect_subexprs(right, out); },
        ast::Expr::DiffSwitch(cases) => for c in cases.iter().flatten() { collect_subexprs(c, out); },
        ast::Expr::Call(..) | ast::Expr::XcrementOp { .. } | ast::Expr::LabelProperty { .. } | ast::Expr::EnumConst { .. } => return,
        _ => {},
    }
    out.push(e);
}

/// C10: name resolution result, as (name, def id) per resolvable identifier in AST walk order.
pub fn resolve(j: &Value) -> Result<Value, String> {
    let lang = make_lang(j)?;
    let mut scope = new_truth_scope();
    let mut truth = scope.truth();
    stage!(truth, "mapfile", setup_mapfiles(&mut truth, &lang, j));
    let text = s(j, "body").ok_or("no body")?;
    struct V<F: FnMut(&truth::ident::ResIdent)> { f: F }
    impl<F: FnMut(&truth::ident::ResIdent)> ast::Visit for V<F> {
        fn visit_res_ident(&mut self, id: &truth::ident::ResIdent) { (self.f)(id) }
    }
    macro_rules! go { ($ty:ty) => {{
        let mut node = stage!(truth, "parse", truth.parse::<$ty>("<input>", text.as_bytes()));
        stage!(truth, "assign_languages", passes::resolution::assign_languages(&mut node, lang.key, truth.ctx()));
        let r = passes::resolution::resolve_names(&node, truth.ctx());
        let ok = match r { Ok(()) => true, Err(e) => { e.ignore(); false } };
        let diag = truth.get_captured_diagnostics().unwrap_or_default();
        let mut out = vec![];
        let mut unique_text = Value::Null;
        if ok {
            let ctx = truth.ctx();
            {
                let res = &ctx.resolutions;
                let mut v = V { f: |id: &truth::ident::ResIdent| {
                    let def = res.try_get_def(id);
                    out.push(json!([id.as_raw().to_string(), def.map(|d| format!("{:?}", d))]));
                }};
                ast::Visitable::visit_with(&node, &mut v);
            }
            let mut copy = node.clone();
            if passes::debug::make_idents_unique::run(&mut copy, &ctx.resolutions).is_ok() {
                unique_text = json!(truth::fmt::stringify(&copy));
            }
        }
        Ok(json!({"stage": "done", "ok": true, "resolved": ok, "diag": diag, "idents": out, "unique_text": unique_text}))
    }}}
    match s(j, "kind").unwrap_or("block") {
        "file" => go!(ast::ScriptFile),
        _ => go!(ast::Block),
    }
}

/// C11: constant folding observations.
/// body: a block of assignments `REG[n] = expr;` (plus const items).  Reports the text of the block after
/// const_simplify and the final registers of the VM on the original and on the simplified block.
pub fn consteval(j: &Value) -> Result<Value, String> {
    let lang = make_lang(j)?;
    let mut scope = new_truth_scope();
    let mut truth = scope.truth();
    stage!(truth, "mapfile", setup_mapfiles(&mut truth, &lang, j));
    let text = s(j, "body").ok_or("no body")?;
    let mut block = stage!(truth, "parse", truth.parse::<ast::Block>("<input>", text.as_bytes())).value;
    stage!(truth, "assign_languages", passes::resolution::assign_languages(&mut block, lang.key, truth.ctx()));
    stage!(truth, "resolve", passes::resolution::resolve_names(&block, truth.ctx()));
    stage!(truth, "typecheck", passes::type_check::run(&block, truth.ctx()));
    let mut simp = block.clone();
    stage!(truth, "constvars", passes::evaluate_const_vars::run(truth.ctx()).map(|_| ()));
    stage!(truth, "simplify", passes::const_simplify::run(&mut simp, truth.ctx()));
    let diag = truth.get_captured_diagnostics().unwrap_or_default();
    // one line of text per top-level statement of the simplified block
    let stmts_text: Vec<String> = simp.0.iter().map(|s| truth::fmt::stringify(s)).collect();
    // literal bits of assignment RHS where it became a literal
    let mut folded = vec![];
    for stmt in &simp.0 {
        if let ast::StmtKind::Assignment { value, .. } = &stmt.kind {
            folded.push(match &value.value {
                ast::Expr::LitInt { value, .. } => json!({"i": value}),
                ast::Expr::LitFloat { value } => json!({"f": value.to_bits()}),
                ast::Expr::LitString(s) => json!({"s": s.string}),
                _ => Value::Null,
            });
        }
    }
    stage!(truth, "aliases_to_raw", passes::resolution::aliases_to_raw(&mut block, truth.ctx()));
    stage!(truth, "aliases_to_raw2", passes::resolution::aliases_to_raw(&mut simp, truth.ctx()));
    let check_regs = ints(j, "check_regs");
    let mut runs = vec![];
    for (si, st) in arr(j, "states").iter().enumerate() {
        let a = run_vm(&block.0, &mut truth, st, 0, 10000, &check_regs);
        let c = run_vm(&simp.0, &mut truth, st, 0, 10000, &check_regs);
        runs.push(json!({"s": si,
            "orig": a.as_ref().map(log_json).unwrap_or_else(|p| json!({"panic": p.msg})),
            "simp": c.as_ref().map(log_json).unwrap_or_else(|p| json!({"panic": p.msg}))}));
    }
    Ok(json!({"stage": "done", "ok": true, "diag": diag, "stmts": stmts_text, "folded": folded, "runs": runs}))
}

/// C14 part 1: mask <-> label table for all 256 masks under the flag definitions of a mapfile.
pub fn diff_labels(j: &Value) -> Result<Value, String> {
    let lang = make_lang(j)?;
    let mut scope = new_truth_scope();
    let mut truth = scope.truth();
    stage!(truth, "mapfile", setup_mapfiles(&mut truth, &lang, j));
    let mut rows = vec![];
    for mask in 0u32..256 {
        let ctx = truth.ctx();
        let r = mon::guarded(|| {
            let label = ctx.diff_flag_defs.mask_to_diff_label(truth::verif_hooks::BitSet32::from_mask(mask));
            let back = ctx.diff_flag_defs.parse_diff_string(truth::sp!(label.string.as_str()));
            (label.string.clone(), back.map(|m| m.value.mask()).ok())
        });
        rows.push(match r { Ok((label, back)) => json!([mask, label, back]), Err(p) => json!([mask, Value::Null, Value::Null, p.msg]) });
    }
    // also parse arbitrary label strings supplied by the driver
    let mut parsed = vec![];
    for l in arr(j, "labels") {
        if let Some(txt) = l.as_str() {
            let ctx = truth.ctx();
            let r = mon::guarded(|| ctx.diff_flag_defs.parse_diff_string(truth::sp!(txt)).map(|m| m.value.mask()).ok());
            parsed.push(match r { Ok(v) => json!([txt, v]), Err(p) => json!([txt, Value::Null, p.msg]) });
        }
    }
    let ctx = truth.ctx();
    Ok(json!({"stage": "done", "ok": true, "rows": rows, "parsed": parsed,
        "difficulty_bits": ctx.diff_flag_defs.difficulty_bits().mask(), "aux_bits": ctx.diff_flag_defs.aux_bits().mask(),
        "diag": truth.get_captured_diagnostics().unwrap_or_default()}))
}

/// C17 part 1: exhaustive pixel sweeps through the real transcoders.
pub fn color_sweep(j: &Value) -> Result<Value, String> {
    use truth::verif_hooks::ColorFormat as CF;
    use std::rc::Rc;
    let name = s(j, "format").ok_or("no format")?;
    let cf = CF::get_all().into_iter().find(|c| c.const_name() == name).ok_or("unknown format")?;
    let bpp = cf.bytes_per_pixel();
    let mut bytes = vec![];
    let count: u64;
    if let Some(list) = j.get("pixels").and_then(|x| x.as_array()) {
        for p in list { let v = p.as_u64().unwrap_or(0); bytes.extend_from_slice(&v.to_le_bytes()[..bpp]); }
        count = list.len() as u64;
    } else {
        count = 1u64 << (8 * bpp.min(2));
        for v in 0..count { bytes.extend_from_slice(&v.to_le_bytes()[..bpp]); }
    }
    let src = Rc::new(bytes);
    let argb = cf.transcode_to_argb_8888(&src);
    let back = cf.transcode_from_argb_8888(&argb);
    let mut mismatches = vec![];
    for i in 0..count as usize {
        if src[i * bpp..(i + 1) * bpp] != back[i * bpp..(i + 1) * bpp] && mismatches.len() < 20 {
            mismatches.push(json!({"index": i, "src": hex(&src[i * bpp..(i + 1) * bpp]), "argb": hex(&argb[i * 4..i * 4 + 4]), "back": hex(&back[i * bpp..(i + 1) * bpp])}));
        }
    }
    let nmis = (0..count as usize).filter(|&i| src[i * bpp..(i + 1) * bpp] != back[i * bpp..(i + 1) * bpp]).count();
    let mut distinct = std::collections::HashSet::new();
    for i in 0..count as usize { distinct.insert(argb[i * 4..i * 4 + 4].to_vec()); }
    let want = b(j, "want_argb", false);
    Ok(json!({"format": name, "bpp": bpp, "count": count, "mismatch_count": nmis, "mismatches": mismatches,
        "distinct_argb": distinct.len(), "argb_len": argb.len(),
        "argb": if want { Value::String(hex(&argb)) } else { Value::Null }}))
}

/// Dump the built-in signature table of a language of a game (input-domain knowledge for the generators).
pub fn core_sigs(j: &Value) -> Result<Value, String> {
    let game = crate::ops_cli::parse_game(s(j, "game").ok_or("no game")?)?;
    let key = lang_key(s(j, "language").ok_or("no language")?);
    let mut scope = new_truth_scope();
    let mut truth = scope.truth();
    let m = truth::verif_hooks::core_mapfile(truth.ctx().emitter, game, key);
    let pairs = |v: &Vec<(i32, truth::Sp<String>)>| Value::Array(v.iter().map(|(k, s)| json!([k, s.value])).collect());
    Ok(json!({"ins_signatures": pairs(&m.ins_signatures), "ins_intrinsics": pairs(&m.ins_intrinsics), "gvar_types": pairs(&m.gvar_types),
              "timeline_ins_signatures": pairs(&m.timeline_ins_signatures), "difficulty_flags": pairs(&m.difficulty_flags)}))
}
