//! Shared by the libFuzzer targets (harness/fuzz) and the `fuzz_table` op: how a fuzz input maps to a CLI job.
//! byte 0 selects (tool, game, mode) from TABLE, byte 1 (binary targets only) the decompile options, the rest is the file.
use serde_json::{json, Value};

pub const TABLE: &[(&str, &str, &str)] = &[
    ("anm", "th06", ""), ("anm", "th07", ""), ("anm", "th08", ""), ("anm", "th10", ""), ("anm", "th12", ""), ("anm", "th14", ""), ("anm", "th17", ""), ("anm", "th18", ""),
    ("std", "th06", ""), ("std", "th08", ""), ("std", "th10", ""), ("std", "th12", ""),
    ("msg", "th06", ""), ("msg", "th08", ""), ("msg", "th10", ""), ("msg", "th12", ""), ("msg", "th17", ""),
    ("msg", "th10", "ending"), ("msg", "th095", "mission"), ("msg", "th125", "mission"),
    ("ecl", "th06", ""), ("ecl", "th07", ""), ("ecl", "th08", ""), ("ecl", "th095", ""), ("ecl", "th10", ""), ("ecl", "th12", ""), ("ecl", "th16", ""),
];

pub fn table_json() -> Value {
    Value::Array(TABLE.iter().map(|(t, g, m)| json!({"tool": t, "game": g, "msg_mode": m})).collect())
}

pub fn has_error_diag(diag: &str) -> bool {
    diag.lines().any(|l| {
        for p in ["error", "bug"] {
            if let Some(rest) = l.strip_prefix(p) {
                if rest.starts_with(':') { return true; }
                if rest.starts_with('[') { if let Some(i) = rest.find(']') { if rest[i + 1..].starts_with(':') { return true; } } }
            }
        }
        false
    })
}
/// warnings other than the "unknown signatures -> blobs" notice (those are loss notices: the round trip is not promised)
pub fn loss_warnings(diag: &str) -> usize {
    diag.lines().filter(|l| l.starts_with("warning") && !l.contains("with unknown signatures were decompiled to byte blobs")).count()
}

fn scratch() -> std::path::PathBuf {
    let d = std::path::PathBuf::from(format!("/dev/shm/tverif-fz-{}", std::process::id()));
    let _ = std::fs::create_dir_all(&d);
    d
}
fn job(entry: (&str, &str, &str), cmd: &str, inp: &std::path::Path, out: &std::path::Path) -> Value {
    let mut j = json!({"tool": entry.0, "game": entry.1, "cmd": cmd, "in": inp.to_str().unwrap(), "out": out.to_str().unwrap()});
    if !entry.2.is_empty() { j["msg_mode"] = json!(entry.2); }
    j
}
fn obs(r: Result<Value, String>) -> (bool, String) {
    let v = r.expect("harness error");
    (v["ok"].as_bool().unwrap(), v["diag"].as_str().unwrap_or("").to_string())
}

/// C04: text -> compile.  Panics (=> fuzzer crash) on an exit/diagnostic mismatch; truth's own panics propagate.
pub fn run_text(data: &[u8]) {
    if data.len() < 1 { return; }
    let e = TABLE[data[0] as usize % TABLE.len()];
    let d = scratch();
    let inp = d.join(format!("in.{}", e.0)); let out = d.join("out.bin");
    std::fs::write(&inp, &data[1..]).unwrap();
    let _ = std::fs::remove_file(&out);
    let (ok, diag) = obs(crate::ops_cli::run_cli(&job(e, "compile", &inp, &out)));
    if ok == has_error_diag(&diag) { panic!("VERIF exit-mismatch ok={} diag={:?}", ok, diag.lines().next()); }
    if ok && std::env::var_os("FZ_RT").is_some() {
        // C03's second oracle: truth can read back what it just wrote
        let txt = d.join("back.txt");
        let (ok2, diag2) = obs(crate::ops_cli::run_cli(&job(e, "decompile", &out, &txt)));
        if !ok2 { panic!("VERIF unreadable-output diag={:?}", diag2.lines().find(|l| l.starts_with("error"))); }
    }
}

/// C16 (+ C01 when FZ_RT is set): binary -> decompile (-> recompile, compare).
pub fn run_bin(data: &[u8]) {
    if data.len() < 2 { return; }
    let e = TABLE[data[0] as usize % TABLE.len()];
    let o = data[1];
    let d = scratch();
    let inp = d.join(format!("in.{}bin", e.0)); let txt = d.join("out.txt"); let out = d.join("re.bin");
    std::fs::write(&inp, &data[2..]).unwrap();
    if e.0 == "anm" && o & 0xE0 == 0xE0 {
        let xd = d.join("x"); let _ = std::fs::remove_dir_all(&xd);
        let (ok, diag) = obs(crate::ops_cli::run_cli(&job(e, "extract", &inp, &xd)));
        if ok == has_error_diag(&diag) { panic!("VERIF exit-mismatch extract ok={} diag={:?}", ok, diag.lines().next()); }
        return;
    }
    let mut j = job(e, "decompile", &inp, &txt);
    j["dopts"] = json!({"blocks": o & 1 == 0, "intrinsics": o & 2 == 0, "arguments": o & 4 == 0, "diff_switches": o & 8 == 0, "calls": o & 16 == 0});
    let (ok, diag) = obs(crate::ops_cli::run_cli(&j));
    if ok == has_error_diag(&diag) { panic!("VERIF exit-mismatch decompile ok={} diag={:?}", ok, diag.lines().next()); }
    if ok && std::env::var_os("FZ_RT").is_some() && loss_warnings(&diag) == 0 {
        let mut c = job(e, "compile", &txt, &out);
        if e.0 == "anm" { c["images"] = json!([inp.to_str().unwrap()]); }
        let (ok2, diag2) = obs(crate::ops_cli::run_cli(&c));
        if !ok2 { panic!("VERIF roundtrip recompile-error {:?}", diag2.lines().find(|l| l.starts_with("error"))); }
        let b = std::fs::read(&out).unwrap();
        if b != &data[2..] { panic!("VERIF roundtrip bytes-differ"); }
    }
}

/// Sources used by the mapfile target: they use every statement kind an intrinsic can serve, plus opcodes 900..905 in call form.
const MAP_SOURCES: &[(&str, &str, &str)] = &[
    ("anm", "th12", "entry { path: \"a.png\", has_data: false, img_width: 64, img_height: 64, img_format: 3, sprites: {sprite0: {id: 0, x: 0.0, y: 0.0, w: 1.0, h: 1.0}} }\nscript script0 {\n  $REG[10000] = 3;\n  %REG[10004] += 1.5;\n  $REG[10000] = $REG[10001] + 3;\n  $REG[10000] = %REG[10004] < 2.0;\n  $REG[10000] = -$REG[10001];\n  %REG[10004] = sin(%REG[10005]);\nlbl:\n  if (--$REG[10000]) goto lbl;\n  if ($REG[10000] == 1) goto lbl;\n  if (%REG[10004] < 1.0) goto lbl @ 5;\n  interrupt[1]:\n  ins_900(1, 2, 3.0);\n  ins_901(\"abc\");\n  ins_902(offsetof(lbl), timeof(lbl));\n  times($REG[10001] = 3) { ins_903(); }\n  goto lbl;\n}\n"),
    ("ecl", "th06", "void sub0() {\n  $REG[-10001] = 3;\n  $REG[-10001] = $REG[-10002] + 3;\n  %REG[-10005] = %REG[-10006] * 2.0;\nlbl:\n  if ($REG[-10001] == 1) goto lbl;\n  if (--$REG[-10001]) goto lbl;\n  {\"E\"}: ins_900(1, 2, 3.0);\n  ins_901(\"abc\");\n  sub0();\n  goto lbl;\n}\nscript timeline0 {\n  ins_900(sub0, 1.0, 2.0);\n  10: ins_901(3);\n}\n"),
    ("ecl", "th08", "void sub0(int a, float b) {\n  $REG[10000] = a + 3;\n  %REG[10004] = b * 2.0;\nlbl:\n  if ($REG[10000] == 1) goto lbl;\n  times(3) { ins_900(1, 2, 3.0); }\n  ins_901(\"abc\");\n  sub0(1, 2.0);\n  goto lbl;\n}\nscript timeline0 {\n  ins_900(sub0, 1.0, 2.0);\n}\n"),
    ("ecl", "th12", "meta { anim: [\"a.anm\"], ecli: [] }\nvoid main() {\n  ins_900(1, 2, 3.0);\n  +10: ins_901(\"abc\");\n  {\"EN\"}: ins_902(7);\n}\n"),
    ("msg", "th08", "meta { table: { 0: {script: \"script0\"} } }\nscript script0 {\n  ins_900(1, 2, 3.0);\n  ins_901(\"abc\");\n  +5: ins_902(7);\n}\n"),
    ("msg", "th12", "meta { table: { 0: {script: \"script0\"} } }\nscript script0 {\n  ins_900(1, 2, 3.0);\n  ins_901(\"|furi\");\n  ins_901(\"abc\");\n}\n"),
    ("std", "th12", "meta { unknown: 0, anm_path: \"a.anm\", objects: {}, instances: [] }\nscript main {\n  ins_900(1, 2, 3.0);\nlbl:\n  +5: ins_901(\"abc\");\n  goto lbl;\n}\n"),
];
pub fn map_table_json() -> Value {
    Value::Array(MAP_SOURCES.iter().map(|(t, g, src)| json!({"tool": t, "game": g, "source": src})).collect())
}

/// C04 (mapfile clause): byte 0 selects the language/source, the rest is a mapfile text.
pub fn run_map(data: &[u8]) {
    if data.len() < 1 { return; }
    let (tool, game, src) = MAP_SOURCES[data[0] as usize % MAP_SOURCES.len()];
    let d = scratch();
    let inp = d.join(format!("msrc.{}", tool)); let out = d.join("mout.bin"); let map = d.join("user.map");
    std::fs::write(&inp, src).unwrap();
    std::fs::write(&map, &data[1..]).unwrap();
    let mut j = job((tool, game, ""), "compile", &inp, &out);
    j["maps"] = json!([map.to_str().unwrap()]);
    let (ok, diag) = obs(crate::ops_cli::run_cli(&j));
    if ok == has_error_diag(&diag) { panic!("VERIF exit-mismatch ok={} diag={:?}", ok, diag.lines().next()); }
    if ok {
        // the file written under this mapfile must be readable under the same mapfile
        let txt = d.join("mback.txt");
        let mut dj = job((tool, game, ""), "decompile", &out, &txt);
        dj["maps"] = json!([map.to_str().unwrap()]);
        let (ok2, diag2) = obs(crate::ops_cli::run_cli(&dj));
        if ok2 == has_error_diag(&diag2) { panic!("VERIF exit-mismatch decompile ok={} diag={:?}", ok2, diag2.lines().next()); }
    }
}
