//! `cli` op: run exactly the pipeline of a truth CLI entry point in-process.
use std::path::PathBuf;
use serde_json::{json, Value};
use truth::cli_def::verif as v;
use truth::{Game, DecompileOptions};

fn s<'a>(j: &'a Value, k: &str) -> Option<&'a str> { j.get(k).and_then(|x| x.as_str()) }
fn b(j: &Value, k: &str, d: bool) -> bool { j.get(k).and_then(|x| x.as_bool()).unwrap_or(d) }
fn paths(j: &Value, k: &str) -> Vec<PathBuf> {
    j.get(k).and_then(|x| x.as_array()).map(|a| a.iter().filter_map(|x| x.as_str()).map(PathBuf::from).collect()).unwrap_or_default()
}

pub fn parse_game(g: &str) -> Result<Game, String> { g.parse::<Game>().map_err(|_| format!("bad game {g}")) }

fn mapfile_options(j: &Value) -> v::MapfileOptions {
    v::MapfileOptions { mapfile_args: paths(j, "maps"), no_builtin_mapfiles: b(j, "no_builtin", false) }
}
fn msg_mode(j: &Value) -> v::MsgMode {
    match s(j, "msg_mode") { Some("mission") => v::MsgMode::Mission, Some("ending") => v::MsgMode::Ending, _ => v::MsgMode::Stage }
}
pub fn decompile_options(j: &Value) -> DecompileOptions {
    let d = j.get("dopts").cloned().unwrap_or(json!({}));
    let show = b(&d, "show_instr_offsets", false);
    DecompileOptions {
        arguments: b(&d, "arguments", true),
        intrinsics: b(&d, "intrinsics", true),
        calls: b(&d, "calls", true) && !show,
        blocks: b(&d, "blocks", true) && !show,
        diff_switches: b(&d, "diff_switches", true) && !show,
        show_instr_offsets: show,
    }
}

/// Returns (ok, diagnostics text, extra).
pub fn run_cli(j: &Value) -> Result<Value, String> {
    let tool = s(j, "tool").ok_or("no tool")?;
    let cmd = s(j, "cmd").ok_or("no cmd")?;
    let game = parse_game(s(j, "game").ok_or("no game")?)?;
    let in_path = PathBuf::from(s(j, "in").ok_or("no in")?);

    let mut scope = truth::Builder::new().capture_diagnostics(true).build();
    let mut truth = scope.truth();
    let _ = truth::verif_hooks::take_reg_events();

    let result: Result<(), truth::ErrorReported> = match cmd {
        "compile" => {
            let o = v::CommonCompileOptions {
                game, in_path, out_path: PathBuf::from(s(j, "out").ok_or("no out")?),
                mapfile_options: mapfile_options(j),
                debug_info_path: s(j, "debug_info").map(PathBuf::from),
            };
            match tool {
                "anm" => v::anm_compile(&mut truth, &o, &paths(j, "images"), s(j, "thecl_defs").map(PathBuf::from)),
                "std" => v::std_compile(&mut truth, &o),
                "msg" => v::msg_compile(&mut truth, &o, msg_mode(j)),
                "ecl" => v::ecl_compile(&mut truth, &o),
                _ => return Err(format!("bad tool {tool}")),
            }
        },
        "decompile" => {
            let o = v::CommonDecompileOptions {
                game, in_path, mapfile_options: mapfile_options(j), decompile_options: decompile_options(j),
            };
            let width = j.get("width").and_then(|x| x.as_u64()).unwrap_or(80) as usize;
            let ast = match tool {
                "anm" => v::anm_decompile(&mut truth, &o),
                "std" => v::std_decompile(&mut truth, &o),
                "msg" => v::msg_decompile(&mut truth, &o, msg_mode(j)),
                "ecl" => v::ecl_decompile(&mut truth, &o),
                _ => return Err(format!("bad tool {tool}")),
            };
            ast.and_then(|ast| {
                let bytes = v::format_script(&mut truth, &ast, width)?;
                if let Some(out) = s(j, "out") {
                    std::fs::write(out, &bytes).map_err(|e| truth.emit(truth::error!("while writing '{}': {}", out, e)))?;
                }
                Ok(())
            })
        },
        "extract" => {
            if tool != "anm" { return Err("extract is anm only".into()); }
            v::anm_extract(&mut truth, game, &in_path, &PathBuf::from(s(j, "out").ok_or("no out")?))
        },
        _ => return Err(format!("bad cmd {cmd}")),
    };
    let ok = match result { Ok(()) => true, Err(e) => { e.ignore(); false } };
    let diag = truth.get_captured_diagnostics().unwrap_or_default();
    let evs = truth::verif_hooks::take_reg_events();
    let mut out = json!({"ok": ok, "diag": diag});
    if b(j, "want_reg_events", false) {
        out["reg_events"] = Value::Array(evs.iter().map(reg_event_json).collect());
    }
    Ok(out)
}

pub fn reg_event_json(e: &truth::verif_hooks::RegEvent) -> Value {
    use truth::verif_hooks::RegEvent as E;
    match e {
        E::PoolInit { general_use, pool, explicit, params } => json!({"ev": "pool", "general_use": general_use, "pool": pool, "explicit": explicit, "params": params}),
        E::Alloc { def, reg, stmt } => json!({"ev": "alloc", "def": def, "reg": reg, "stmt": stmt}),
        E::Free { def, reg, stmt } => json!({"ev": "free", "def": def, "reg": reg, "stmt": stmt}),
        E::Done => json!({"ev": "done"}),
    }
}
