//! Monitors: counting allocator, panic capture with site signature.
use std::alloc::{GlobalAlloc, Layout, System};
use std::cell::RefCell;
use std::sync::atomic::{AtomicUsize, Ordering::Relaxed};

pub struct CountingAlloc;
static LIVE: AtomicUsize = AtomicUsize::new(0);
static PEAK: AtomicUsize = AtomicUsize::new(0);
static BIGGEST: AtomicUsize = AtomicUsize::new(0);
/// A single allocation request above this size is refused (returns null => alloc error abort,
/// which the driver observes as a dead worker).  Protects the sandbox from multi-GB requests.
pub static HARD_LIMIT: AtomicUsize = AtomicUsize::new(3 << 30);

unsafe impl GlobalAlloc for CountingAlloc {
    unsafe fn alloc(&self, l: Layout) -> *mut u8 {
        if l.size() > BIGGEST.load(Relaxed) { BIGGEST.store(l.size(), Relaxed); }
        if LIVE.load(Relaxed) + l.size() > HARD_LIMIT.load(Relaxed) { return std::ptr::null_mut(); }
        let p = System.alloc(l);
        if !p.is_null() { bump(l.size()); }
        p
    }
    unsafe fn alloc_zeroed(&self, l: Layout) -> *mut u8 {
        if l.size() > BIGGEST.load(Relaxed) { BIGGEST.store(l.size(), Relaxed); }
        if LIVE.load(Relaxed) + l.size() > HARD_LIMIT.load(Relaxed) { return std::ptr::null_mut(); }
        let p = System.alloc_zeroed(l);
        if !p.is_null() { bump(l.size()); }
        p
    }
    unsafe fn dealloc(&self, p: *mut u8, l: Layout) {
        LIVE.fetch_sub(l.size(), Relaxed);
        System.dealloc(p, l)
    }
    unsafe fn realloc(&self, p: *mut u8, l: Layout, new: usize) -> *mut u8 {
        if new > BIGGEST.load(Relaxed) { BIGGEST.store(new, Relaxed); }
        if new > l.size() && LIVE.load(Relaxed) + (new - l.size()) > HARD_LIMIT.load(Relaxed) { return std::ptr::null_mut(); }
        let q = System.realloc(p, l, new);
        if !q.is_null() {
            if new >= l.size() { bump(new - l.size()); } else { LIVE.fetch_sub(l.size() - new, Relaxed); }
        }
        q
    }
}
fn bump(n: usize) {
    let live = LIVE.fetch_add(n, Relaxed) + n;
    if live > PEAK.load(Relaxed) { PEAK.store(live, Relaxed); }
}
/// Start a measurement window: peak := live.  Returns live.
pub fn mem_reset() -> usize { let l = LIVE.load(Relaxed); PEAK.store(l, Relaxed); BIGGEST.store(0, Relaxed); l }
pub fn mem_peak() -> usize { PEAK.load(Relaxed) }
pub fn mem_biggest() -> usize { BIGGEST.load(Relaxed) }

#[derive(Debug, Clone)]
pub struct PanicRecord { pub msg: String, pub loc: String, pub site: String, pub frames: Vec<String> }

thread_local! { static LAST_PANIC: RefCell<Option<PanicRecord>> = RefCell::new(None); }

pub fn install_panic_hook() {
    std::panic::set_hook(Box::new(|info| {
        let msg = if let Some(s) = info.payload().downcast_ref::<&str>() { s.to_string() }
            else if let Some(s) = info.payload().downcast_ref::<String>() { s.clone() }
            else { "<non-string panic payload>".to_string() };
        let loc = info.location().map(|l| format!("{}:{}:{}", l.file(), l.line(), l.column())).unwrap_or_default();
        let bt = std::backtrace::Backtrace::force_capture().to_string();
        let mut frames = vec![];
        for line in bt.lines() {
            let t = line.trim_start();
            // frame lines look like "12: symbol"
            if let Some(pos) = t.find(": ") {
                if t[..pos].chars().all(|c| c.is_ascii_digit()) && pos > 0 {
                    frames.push(strip_hash(&t[pos + 2..]));
                }
            }
        }
        let site = frames.iter()
            .find(|f| (f.starts_with("truth::") || f.starts_with("<truth::")) && !f.contains("verif_hooks"))
            .cloned().unwrap_or_else(|| "<no truth frame>".to_string());
        let keep: Vec<String> = frames.iter().filter(|f| f.contains("truth::")).take(12).cloned().collect();
        LAST_PANIC.with(|p| *p.borrow_mut() = Some(PanicRecord { msg, loc, site, frames: keep }));
    }));
}
fn strip_hash(s: &str) -> String {
    // remove trailing ::h0123456789abcdef
    if let Some(i) = s.rfind("::h") {
        let tail = &s[i + 3..];
        if tail.len() == 16 && tail.chars().all(|c| c.is_ascii_hexdigit()) { return s[..i].to_string(); }
    }
    s.to_string()
}
pub fn take_panic() -> Option<PanicRecord> { LAST_PANIC.with(|p| p.borrow_mut().take()) }

pub fn panic_json(p: &PanicRecord) -> serde_json::Value {
    serde_json::json!({"msg": p.msg, "loc": p.loc, "site": p.site, "frames": p.frames})
}

/// Run `f`, catching a panic.  Returns Err(record) on panic.
pub fn guarded<T>(f: impl FnOnce() -> T) -> Result<T, PanicRecord> {
    let _ = take_panic();
    match std::panic::catch_unwind(std::panic::AssertUnwindSafe(f)) {
        Ok(v) => Ok(v),
        Err(_) => Err(take_panic().unwrap_or(PanicRecord { msg: "<panic without hook record>".into(), loc: String::new(), site: String::new(), frames: vec![] })),
    }
}
