//! Thin observation layer over the real `truth` crate (built with `--cfg truth_verif`).
//! All generators, models and oracles live in the python driver (`/verif/vlib`); this crate
//! only *executes* the real code and reports what happened.

pub mod mon;
pub mod ops_cli;
pub mod ops_api;
pub mod canon;
pub mod fuzzsup;
