#![no_main]
use libfuzzer_sys::fuzz_target;
fuzz_target!(|data: &[u8]| { tverif::fuzzsup::run_map(data); });
